//! R — reference big-step semantics of FML source programs, written from the README rules
//! (DESIGN.md §4). Deliberately boring: an environment-passing interpreter with fuel.
//! Outcome: Ok(output) | Fail(output before the fault) | Unspec(reason) — Unspec cases are
//! skipped and counted by the checks, never judged.

use super::syntax::{E, Member};
use std::collections::HashMap;

#[derive(Clone, Copy, Debug, PartialEq, Eq)]
/// `Unk`: a value the specification leaves open (U3: result of the built-in array `set`); storing,
/// passing and discarding it is fine, observing it makes the case Unspecified
pub enum V { Null, Bool(bool), Int(i32), Ref(usize), Unk }

#[derive(Clone, Debug, PartialEq, Eq)]
pub enum Status { Ok, Fail, Unspec }

#[derive(Clone, Debug, PartialEq, Eq, Hash)]
pub enum Alloc {
    /// a compound-array allocation begins here (its elements' allocations follow) / ends here: the
    /// outer array itself may be allocated at either point (U8)
    CompoundBegin(usize),
    CompoundEnd,
    /// array with n cells
    Array(usize),
    /// object: parent kind, field names (declaration order), method names (declaration order)
    Object(&'static str, Vec<String>, Vec<String>),
}

#[derive(Clone, Debug)]
pub struct RefResult {
    pub status: Status,
    pub out: String,
    pub reason: String,
    pub allocs: Vec<Alloc>,
    pub steps: u64,
    /// bitmask over construct kinds actually evaluated (see `kind_bit`)
    pub constructs: u32,
    pub max_depth: usize,
}

pub enum Stop { Fail(String), Unspec(String) }
pub type R<T> = Result<T, Stop>;
fn fail<T>(s: &str) -> R<T> { Err(Stop::Fail(s.to_string())) }
fn unspec<T>(s: &str) -> R<T> { Err(Stop::Unspec(s.to_string())) }

#[derive(Clone, Copy, Debug)]
pub struct Fuel { pub steps: u64, pub depth: usize, pub cells: usize, pub array: usize, pub output: usize }
impl Default for Fuel {
    fn default() -> Self { Fuel { steps: 20_000, depth: 200, cells: 5_000, array: 64, output: 20_000 } }
}

pub fn kind_bit(k: &str) -> u32 {
    const KS: [&str; 21] = ["int", "bool", "null", "var", "let", "set", "block", "if", "ifelse", "while", "call",
        "array", "idx", "idxset", "object", "fget", "fset", "mcall", "binop", "print", "fun"];
    KS.iter().position(|x| *x == k).map_or(0, |i| 1 << i)
}

struct Method<'a> { name: &'a str, params: &'a Vec<String>, body: &'a E }

enum Obj<'a> {
    Array(Vec<V>),
    Object { parent: V, fields: Vec<(&'a str, V)>, methods: Vec<Method<'a>> },
}

/// one scope: dynamic bindings (name, value, id of the `let` that bound it; 0 for parameters)
/// and static table (name -> textual position of the `let` that binds it directly in this scope)
/// Scopes wider than `WIDE` names keep a name index next to the tables, so that programs with tens of
/// thousands of locals stay linear; narrower scopes are scanned (first match wins in both).
struct Scope<'a> { dynamic: Vec<(&'a str, V, u32)>, statics: Vec<(&'a str, u32)>, dix: Option<HashMap<&'a str, usize>>, six: Option<HashMap<&'a str, u32>> }
const WIDE: usize = 32;

impl<'a> Scope<'a> {
    fn new(dynamic: Vec<(&'a str, V, u32)>, statics: Vec<(&'a str, u32)>) -> Self {
        let six = if statics.len() > WIDE { let mut m = HashMap::new(); for x in &statics { m.entry(x.0).or_insert(x.1); } Some(m) } else { None };
        let mut sc = Scope { dynamic, statics, dix: None, six };
        sc.reindex();
        sc
    }
    fn reindex(&mut self) {
        if self.dix.is_none() && self.dynamic.len() > WIDE {
            let mut m = HashMap::new();
            for (i, x) in self.dynamic.iter().enumerate() { m.entry(x.0).or_insert(i); }
            self.dix = Some(m);
        }
    }
    fn static_pos(&self, name: &str) -> Option<u32> {
        match &self.six { Some(m) => m.get(name).copied(), None => self.statics.iter().find(|x| x.0 == name).map(|x| x.1) }
    }
    fn slot(&self, name: &str) -> Option<usize> {
        match &self.dix { Some(m) => m.get(name).copied(), None => self.dynamic.iter().position(|x| x.0 == name) }
    }
    fn has(&self, name: &str) -> bool { self.slot(name).is_some() }
    fn bind(&mut self, name: &'a str, v: V, lid: u32) {
        if let Some(m) = &mut self.dix { m.entry(name).or_insert(self.dynamic.len()); }
        self.dynamic.push((name, v, lid));
        self.reindex();
    }
}

struct Frame<'a> { scopes: Vec<Scope<'a>>, body_lets: Vec<&'a str>, is_top: bool }

pub struct Interp<'a> {
    out: String,
    heap: Vec<Obj<'a>>,
    allocs: Vec<Alloc>,
    fuel: Fuel,
    steps: u64,
    depth: usize,
    max_depth: usize,
    effects: u64,
    constructs: u32,
    funs: Vec<(&'a str, &'a Vec<String>, &'a E)>,
    top_static: Vec<(&'a str, u32)>,
    top_lets: Vec<&'a str>,
    pos: HashMap<usize, u32>,
    /// deviation switches for *known* findings only (DESIGN.md §2); empty by default
    pub switches: Vec<String>,
}

fn key(e: &E) -> usize { e as *const E as usize }

/// textual positions: var at its name, set at its name (before the value), let after its value
fn annotate(e: &E, ctr: &mut u32, pos: &mut HashMap<usize, u32>) {
    use E::*;
    match e {
        Int(_) | Bool(_) | Null => {}
        Var(_) => { *ctr += 1; pos.insert(key(e), *ctr); }
        Let(_, v) => { annotate(v, ctr, pos); *ctr += 1; pos.insert(key(e), *ctr); }
        Set(_, v) => { *ctr += 1; pos.insert(key(e), *ctr); annotate(v, ctr, pos); }
        _ => for c in e.children() { annotate(c, ctr, pos) },
    }
}

fn is_pure_path(e: &E) -> bool {
    match e {
        E::Int(_) | E::Bool(_) | E::Null | E::Var(_) => true,
        E::FGet(o, _) => is_pure_path(o),
        _ => false,
    }
}

/// names declared by `let` anywhere in e, not descending into method bodies
fn lets_in<'a>(e: &'a E, acc: &mut Vec<&'a str>) {
    let mut seen: Option<std::collections::HashSet<&'a str>> = None;
    lets_in_go(e, acc, &mut seen)
}

fn lets_in_go<'a>(e: &'a E, acc: &mut Vec<&'a str>, seen: &mut Option<std::collections::HashSet<&'a str>>) {
    use E::*;
    match e {
        Let(n, v) => {
            let present = match seen { Some(s) => s.contains(n.as_str()), None => acc.contains(&n.as_str()) };
            if !present {
                acc.push(n);
                match seen { Some(s) => { s.insert(n.as_str()); } None => if acc.len() > WIDE { *seen = Some(acc.iter().copied().collect()) } }
            }
            lets_in_go(v, acc, seen)
        }
        Object(p, ms) => {
            if let Some(p) = p { lets_in_go(p, acc, seen) }
            for m in ms { if let Member::Field(_, v) = m { lets_in_go(v, acc, seen) } }
        }
        Fun(..) => {}
        _ => for c in e.children() { lets_in_go(c, acc, seen) },
    }
}

/// (name -> position) of lets binding in the scope e is evaluated in (not nested scopes)
fn direct_lets<'a>(e: &'a E, pos: &HashMap<usize, u32>, acc: &mut Vec<(&'a str, u32)>) {
    direct_lets_of(std::iter::once(e), pos, acc)
}

/// the same over all statements of one scope (one name index for the whole scope)
fn direct_lets_of<'a>(xs: impl Iterator<Item = &'a E>, pos: &HashMap<usize, u32>, acc: &mut Vec<(&'a str, u32)>) {
    let mut ix: Option<HashMap<&'a str, usize>> = if acc.len() > WIDE { Some(acc.iter().enumerate().map(|(i, x)| (x.0, i)).collect()) } else { None };
    for e in xs { direct_lets_go(e, pos, acc, &mut ix) }
}

fn direct_lets_go<'a>(e: &'a E, pos: &HashMap<usize, u32>, acc: &mut Vec<(&'a str, u32)>, ix: &mut Option<HashMap<&'a str, usize>>) {
    use E::*;
    match e {
        Let(n, v) => {
            direct_lets_go(v, pos, acc, ix);
            let p = pos[&key(e)];
            let at = match ix { Some(m) => m.get(n.as_str()).copied(), None => acc.iter().position(|x| x.0 == n.as_str()) };
            match at {
                Some(i) => acc[i].1 = p,
                None => {
                    acc.push((n, p));
                    match ix { Some(m) => { m.insert(n.as_str(), acc.len() - 1); } None => if acc.len() > WIDE { *ix = Some(acc.iter().enumerate().map(|(i, x)| (x.0, i)).collect()) } }
                }
            }
        }
        Block(_) | Fun(..) => {}
        Array(n, v) => { direct_lets_go(n, pos, acc, ix); if is_pure_path(v) { direct_lets_go(v, pos, acc, ix) } }
        Object(p, ms) => {
            if let Some(p) = p { direct_lets_go(p, pos, acc, ix) }
            for m in ms { if let Member::Field(_, v) = m { direct_lets_go(v, pos, acc, ix) } }
        }
        _ => for c in e.children() { direct_lets_go(c, pos, acc, ix) },
    }
}

/// U2: two syntactic lets of one name binding in one scope, duplicate parameters, `this` as
/// a method parameter, duplicate members.
fn scope_lets<'a>(e: &'a E, acc: &mut Vec<&'a str>) -> R<()> {
    use E::*;
    fn newscope<'a>(xs: &[&'a E], pre: Vec<&'a str>) -> R<()> {
        let mut inner = pre;
        for x in xs { scope_lets(x, &mut inner)? }
        let mut s = inner.clone(); s.sort(); s.dedup();
        if s.len() != inner.len() { return unspec("U2 static redeclaration") }
        Ok(())
    }
    match e {
        Let(n, v) => { scope_lets(v, acc)?; acc.push(n); }
        Block(v) => newscope(&v.iter().collect::<Vec<_>>(), vec![])?,
        Array(n, v) => {
            scope_lets(n, acc)?;
            if is_pure_path(v) { scope_lets(v, acc)? } else { newscope(&[&**v], vec![])? }
        }
        Object(p, ms) => {
            if let Some(p) = p { scope_lets(p, acc)? }
            let mut names: Vec<&str> = vec![];
            for m in ms {
                match m {
                    Member::Field(n, v) => { scope_lets(v, acc)?; names.push(n) }
                    Member::Method(n, ps, body) => {
                        names.push(n);
                        if ps.iter().any(|p| p == "this") { return unspec("U2 parameter named this") }
                        let mut pre: Vec<&str> = vec!["this"];
                        pre.extend(ps.iter().map(|s| s.as_str()));
                        newscope(&[body], pre)?
                    }
                }
            }
            let mut s = names.clone(); s.sort(); s.dedup();
            if s.len() != names.len() { return unspec("U2 duplicate member") }
        }
        Fun(_, ps, body) => newscope(&[&**body], ps.iter().map(|s| s.as_str()).collect())?,
        _ => for c in e.children() { scope_lets(c, acc)? },
    }
    Ok(())
}

fn mentions_this(e: &E) -> bool {
    let mut found = false;
    e.walk(&mut |x| match x { E::Var(n) | E::Set(n, _) | E::Let(n, _) if n == "this" => found = true, _ => {} });
    found
}

impl<'a> Interp<'a> {
    fn tick(&mut self) -> R<()> {
        self.steps += 1;
        if self.steps > self.fuel.steps { return unspec("U9 fuel") }
        Ok(())
    }

    fn alloc(&mut self, o: Obj<'a>) -> R<V> {
        if self.heap.len() >= self.fuel.cells { return unspec("U9 heap") }
        self.allocs.push(match &o {
            Obj::Array(c) => Alloc::Array(c.len()),
            Obj::Object { parent, fields, methods } => {
                let pk = match parent { V::Null => "null", V::Int(_) => "int", V::Bool(_) => "bool", V::Unk => "unknown",
                    V::Ref(i) => match &self.heap[*i] { Obj::Array(_) => "array", Obj::Object { .. } => "object" } };
                Alloc::Object(pk, fields.iter().map(|f| f.0.to_string()).collect(), methods.iter().map(|m| m.name.to_string()).collect())
            }
        });
        self.effects += 1;
        self.heap.push(o);
        Ok(V::Ref(self.heap.len() - 1))
    }

    /// static (textual) resolution: Some((scope index, is_global)) of the binding, None = unbound.
    /// scope index usize::MAX denotes the global scope seen from inside a function.
    fn lookup(&self, name: &str, fr: &Frame<'a>, pos: u32, globals: &Scope<'a>) -> R<Option<usize>> {
        for i in (0..fr.scopes.len()).rev() {
            let sc = &fr.scopes[i];
            let is_global_scope = fr.is_top && i == 0;
            let st = sc.static_pos(name);
            let dynamic = if is_global_scope { globals.has(name) } else { sc.has(name) };
            if let Some(p) = st {
                if p < pos {
                    if dynamic { return Ok(Some(i)) }
                    return unspec("U1 statically visible let has not executed");
                }
            }
            if dynamic && st.is_none() { return Ok(Some(i)) } // parameters / this
            if is_global_scope && st.is_some() { return unspec("U1 use before global let") }
        }
        if !fr.is_top {
            if self.top_static.iter().any(|x| x.0 == name) {
                if globals.has(name) { return Ok(Some(usize::MAX)) }
                return unspec("U1 global let has not executed");
            }
        }
        Ok(None)
    }

    fn unbound<T>(&self, name: &str, fr: &Frame<'a>) -> R<T> {
        if fr.body_lets.contains(&name) || self.top_lets.contains(&name) { return unspec("U1 non-dominated use") }
        fail("unknown variable")
    }

    fn ev(&mut self, e: &'a E, fr: &mut Frame<'a>, globals: &mut Scope<'a>) -> R<V> {
        use E::*;
        self.tick()?;
        self.constructs |= kind_bit(e.kind());
        match e {
            Int(i) => Ok(V::Int(*i)),
            Bool(x) => Ok(V::Bool(*x)),
            Null => Ok(V::Null),
            Var(n) => {
                let pos = self.pos[&key(e)];
                match self.lookup(n, fr, pos, globals)? {
                    None => self.unbound(n, fr),
                    Some(i) => {
                        let sc = if i == usize::MAX || (fr.is_top && i == 0) { &*globals } else { &fr.scopes[i] };
                        Ok(sc.dynamic[sc.slot(n).unwrap()].1)
                    }
                }
            }
            Let(n, v) => {
                let val = self.ev(v, fr, globals)?;
                let lid = self.pos[&key(e)];
                let sc = if fr.is_top && fr.scopes.len() == 1 { &mut *globals } else { fr.scopes.last_mut().unwrap() };
                if let Some(i) = sc.slot(n) {
                    let x = &mut sc.dynamic[i];
                    if x.2 != lid { return unspec("U2 redeclaration") }
                    x.1 = val;
                } else {
                    sc.bind(n, val, lid);
                }
                self.effects += 1;
                Ok(val)
            }
            Set(n, v) => {
                let pos = self.pos[&key(e)];
                let before = self.lookup(n, fr, pos, globals)?;
                let val = self.ev(v, fr, globals)?;
                let after = self.lookup(n, fr, pos, globals)?;
                if before != after { return unspec("U2 assignment target changes while its value is evaluated") }
                match after {
                    None => self.unbound(n, fr),
                    Some(i) => {
                        let sc = if i == usize::MAX || (fr.is_top && i == 0) { &mut *globals } else { &mut fr.scopes[i] };
                        let i = sc.slot(n).unwrap();
                        sc.dynamic[i].1 = val;
                        self.effects += 1;
                        Ok(val)
                    }
                }
            }
            Block(xs) => {
                let mut st = vec![];
                direct_lets_of(xs.iter(), &self.pos, &mut st);
                fr.scopes.push(Scope::new(vec![], st));
                let mut v = Ok(V::Null);
                for x in xs {
                    v = self.ev(x, fr, globals);
                    if v.is_err() { break }
                }
                fr.scopes.pop();
                v
            }
            If(c, t, f) => {
                match self.ev(c, fr, globals)? {
                    V::Bool(true) => self.ev(t, fr, globals),
                    V::Bool(false) => match f { Some(f) => self.ev(f, fr, globals), None => Ok(V::Null) },
                    _ => unspec("non-boolean condition"),
                }
            }
            While(c, body) => {
                loop {
                    match self.ev(c, fr, globals)? {
                        V::Bool(true) => { self.ev(body, fr, globals)?; }
                        V::Bool(false) => return Ok(V::Null),
                        _ => return unspec("non-boolean condition"),
                    }
                }
            }
            Call(name, args) => {
                let before = self.effects;
                let mut vals = Vec::with_capacity(args.len());
                for a in args { vals.push(self.ev(a, fr, globals)?) }
                let f = self.funs.iter().find(|f| f.0 == name.as_str()).map(|f| (f.1, f.2));
                match f {
                    None => if self.effects != before { unspec("U5 unknown function after effectful arguments") } else { fail("unknown function") },
                    Some((ps, body)) => {
                        if ps.len() != vals.len() {
                            return if self.effects != before { unspec("U5 arity fault after effectful arguments") } else { fail("function arity") }
                        }
                        let params: Vec<&'a str> = ps.iter().map(|s| s.as_str()).collect();
                        self.invoke(params, body, vals, globals)
                    }
                }
            }
            Array(n, init) => {
                let nv = self.ev(n, fr, globals)?;
                if nv == V::Unk { return unspec("U3 value of built-in set observed") }
                let size_ok = matches!(nv, V::Int(i) if i >= 0);
                if is_pure_path(init) {
                    if !size_ok {
                        return match self.ev(init, fr, globals) {
                            Err(Stop::Fail(_)) => unspec("two faults"),
                            Err(x) => Err(x),
                            Ok(_) => fail("bad array size"),
                        }
                    }
                    let len = if let V::Int(i) = nv { i as usize } else { 0 };
                    if len == 0 {
                        return match self.ev(init, fr, globals) {
                            Err(Stop::Fail(_)) => unspec("U6"),
                            Err(x) => Err(x),
                            Ok(_) => self.alloc(Obj::Array(vec![])),
                        }
                    }
                    let v = self.ev(init, fr, globals)?;
                    if len > self.fuel.array { return unspec("U9 big array") }
                    return self.alloc(Obj::Array(vec![v; len]));
                }
                if !size_ok { return fail("bad array size") }
                let len = if let V::Int(i) = nv { i as usize } else { 0 };
                if len > self.fuel.array { return unspec("U9 big array") }
                self.allocs.push(Alloc::CompoundBegin(len));
                let r = self.alloc(Obj::Array(vec![V::Null; len]))?;
                self.allocs.pop(); // the outer array is represented by the Begin/End pair
                let ri = if let V::Ref(i) = r { i } else { unreachable!() };
                let mut st = vec![];
                direct_lets(init, &self.pos, &mut st);
                for i in 0..len {
                    fr.scopes.push(Scope::new(vec![], st.clone()));
                    let v = self.ev(init, fr, globals);
                    fr.scopes.pop();
                    let v = v?;
                    if let Obj::Array(cells) = &mut self.heap[ri] { cells[i] = v }
                    self.effects += 1;
                }
                self.allocs.push(Alloc::CompoundEnd);
                Ok(r)
            }
            Idx(a, i) => {
                let av = self.ev(a, fr, globals)?;
                let iv = self.ev(i, fr, globals)?;
                self.send(av, "get", vec![iv], globals)
            }
            IdxSet(a, i, v) => {
                let av = self.ev(a, fr, globals)?;
                let iv = self.ev(i, fr, globals)?;
                let vv = self.ev(v, fr, globals)?;
                self.send(av, "set", vec![iv, vv], globals)
            }
            Object(p, ms) => {
                let parent = match p { Some(p) => self.ev(p, fr, globals)?, None => V::Null };
                if parent == V::Unk { return unspec("U3 value of built-in set observed") }
                let mut fields: Vec<(&'a str, V)> = vec![];
                let mut methods: Vec<Method<'a>> = vec![];
                for m in ms {
                    match m {
                        Member::Field(n, v) => {
                            let val = self.ev(v, fr, globals)?;
                            if fields.iter().any(|f| f.0 == n.as_str()) { return unspec("U2 duplicate member") }
                            fields.push((n, val));
                        }
                        Member::Method(n, ps, body) => {
                            if methods.iter().any(|f| f.name == n.as_str()) { return unspec("U2 duplicate member") }
                            methods.push(Method { name: n, params: ps, body });
                        }
                    }
                }
                self.alloc(Obj::Object { parent, fields, methods })
            }
            FGet(o, f) => {
                let ov = self.ev(o, fr, globals)?;
                match self.as_object(ov)? {
                    Obj::Object { fields, .. } => match fields.iter().find(|x| x.0 == f.as_str()) {
                        Some(x) => Ok(x.1),
                        None => fail("unknown field"),
                    },
                    _ => unreachable!(),
                }
            }
            FSet(o, f, v) => {
                let ov = self.ev(o, fr, globals)?;
                let vv = self.ev(v, fr, globals)?;
                if ov == V::Unk { return unspec("U3 value of built-in set observed") }
                let i = match ov { V::Ref(i) => i, _ => return fail("not an object") };
                match &mut self.heap[i] {
                    Obj::Object { fields, .. } => match fields.iter_mut().find(|x| x.0 == f.as_str()) {
                        Some(x) => { x.1 = vv; self.effects += 1; Ok(vv) }
                        None => fail("unknown field"),
                    },
                    _ => fail("not an object"),
                }
            }
            MCall(o, name, args) => {
                let ov = self.ev(o, fr, globals)?;
                let mut vals = Vec::with_capacity(args.len());
                for a in args { vals.push(self.ev(a, fr, globals)?) }
                self.send(ov, name, vals, globals)
            }
            BinOp(op, l, r) => {
                let lv = self.ev(l, fr, globals)?;
                let rv = self.ev(r, fr, globals)?;
                self.send(lv, op, vec![rv], globals)
            }
            Print(f, args) => {
                let mut vals = Vec::with_capacity(args.len());
                for a in args { vals.push(self.ev(a, fr, globals)?) }
                let s = self.fmt(f, &vals)?;
                self.out.push_str(&s);
                self.effects += 1;
                if self.out.len() > self.fuel.output { return unspec("U9 output") }
                Ok(V::Null)
            }
            Fun(..) => Ok(V::Null),
        }
    }

    fn as_object(&self, v: V) -> R<&Obj<'a>> {
        if v == V::Unk { return unspec("U3 value of built-in set observed") }
        if let V::Ref(i) = v { if let Obj::Object { .. } = &self.heap[i] { return Ok(&self.heap[i]) } }
        fail("not an object")
    }

    fn invoke(&mut self, params: Vec<&'a str>, body: &'a E, args: Vec<V>, globals: &mut Scope<'a>) -> R<V> {
        self.depth += 1;
        if self.depth > self.max_depth { self.max_depth = self.depth }
        if self.depth > self.fuel.depth { self.depth -= 1; return unspec("U9 depth") }
        let mut bl = vec![];
        lets_in(body, &mut bl);
        let mut st = vec![];
        direct_lets(body, &self.pos, &mut st);
        let dynamic = params.iter().zip(args.iter()).map(|(p, a)| (*p, *a, 0u32)).collect();
        let mut fr = Frame { scopes: vec![Scope::new(dynamic, st)], body_lets: bl, is_top: false };
        let r = self.ev(body, &mut fr, globals);
        self.depth -= 1;
        r
    }

    pub fn send(&mut self, recv: V, name: &str, args: Vec<V>, globals: &mut Scope<'a>) -> R<V> {
        self.tick()?;
        let mut cur = recv;
        let mut hops = 0usize;
        loop {
            match cur {
                V::Unk => return unspec("U3 value of built-in set observed"),
                V::Null => return null_builtin(name, &args),
                V::Bool(x) => return bool_builtin(x, name, &args),
                V::Int(n) => return int_builtin(n, name, &args),
                V::Ref(i) => {
                    let (found, parent) = match &mut self.heap[i] {
                        Obj::Array(cells) => return array_builtin(cells, name, &args),
                        Obj::Object { parent, methods, .. } =>
                            (methods.iter().find(|m| m.name == name).map(|m| (m.params, m.body)), *parent),
                    };
                    if let Some((ps, body)) = found {
                        if ps.len() != args.len() { return fail("method arity") }
                        if hops > 0 && mentions_this(body) { return unspec("U4 this in a method found in an ancestor") }
                        let mut params: Vec<&'a str> = vec!["this"];
                        params.extend(ps.iter().map(|s| s.as_str()));
                        let mut vals = vec![cur];
                        vals.extend(args);
                        return self.invoke(params, body, vals, globals);
                    }
                    if parent == V::Null { return fail("no such method") }
                    cur = parent;
                    hops += 1;
                    if hops > 10_000 { return unspec("cyclic parent chain") }
                }
            }
        }
    }

    pub fn fmt(&self, f: &str, args: &[V]) -> R<String> {
        let mut out = String::new();
        let mut k = 0usize;
        let mut it = f.chars();
        while let Some(c) = it.next() {
            match c {
                '\\' => match it.next() {
                    None => return unspec("U7 trailing backslash"),
                    Some('n') => out.push('\n'),
                    Some('t') => out.push('\t'),
                    Some('r') => out.push('\r'),
                    Some('\\') => out.push('\\'),
                    Some('"') => out.push('"'),
                    Some('~') => out.push('~'),
                    Some(_) => return unspec("U7 unknown escape"),
                },
                '~' => {
                    if k >= args.len() { return fail("too few print arguments") }
                    let mut path = vec![];
                    self.render(args[k], &mut path, &mut out)?;
                    k += 1;
                }
                c => out.push(c),
            }
        }
        if k != args.len() { return fail("too many print arguments") }
        Ok(out)
    }

    pub fn render(&self, v: V, path: &mut Vec<usize>, out: &mut String) -> R<()> {
        match v {
            V::Null => out.push_str("null"),
            V::Bool(x) => out.push_str(if x { "true" } else { "false" }),
            V::Int(i) => out.push_str(&i.to_string()),
            V::Unk => return unspec("U3 value of built-in set observed"),
            V::Ref(i) => {
                if path.contains(&i) { return unspec("cyclic print") }
                if out.len() > self.fuel.output { return unspec("U9 output") }
                path.push(i);
                match &self.heap[i] {
                    Obj::Array(cells) => {
                        out.push('[');
                        for (j, c) in cells.iter().enumerate() {
                            if j > 0 { out.push_str(", ") }
                            self.render(*c, path, out)?;
                        }
                        out.push(']');
                    }
                    Obj::Object { parent, fields, .. } => {
                        out.push_str("object(");
                        let mut first = true;
                        if *parent != V::Null {
                            out.push_str("..=");
                            self.render(*parent, path, out)?;
                            first = false;
                        }
                        let mut fs: Vec<&(&str, V)> = fields.iter().collect();
                        fs.sort_by(|a, b| a.0.cmp(b.0));
                        for (n, val) in fs {
                            if !first { out.push_str(", ") }
                            first = false;
                            out.push_str(n);
                            out.push('=');
                            self.render(*val, path, out)?;
                        }
                        out.push(')');
                    }
                }
                path.pop();
            }
        }
        Ok(())
    }
}

pub fn null_builtin(name: &str, args: &[V]) -> R<V> {
    if args.contains(&V::Unk) { return unspec("U3 value of built-in set observed") }
    if args.len() != 1 { return fail("builtin arity") }
    match name {
        "==" | "eq" => Ok(V::Bool(args[0] == V::Null)),
        "!=" | "neq" => Ok(V::Bool(args[0] != V::Null)),
        _ => fail("no such method on null"),
    }
}

pub fn bool_builtin(x: bool, name: &str, args: &[V]) -> R<V> {
    if args.contains(&V::Unk) { return unspec("U3 value of built-in set observed") }
    if args.len() != 1 { return fail("builtin arity") }
    let a = args[0];
    match name {
        "&" | "and" => if let V::Bool(y) = a { Ok(V::Bool(x && y)) } else { fail("operand kind") },
        "|" | "or" => if let V::Bool(y) = a { Ok(V::Bool(x || y)) } else { fail("operand kind") },
        "==" | "eq" => Ok(V::Bool(a == V::Bool(x))),
        "!=" | "neq" => Ok(V::Bool(a != V::Bool(x))),
        _ => fail("no such method on boolean"),
    }
}

pub fn int_builtin(n: i32, name: &str, args: &[V]) -> R<V> {
    if args.contains(&V::Unk) { return unspec("U3 value of built-in set observed") }
    if args.len() != 1 { return fail("builtin arity") }
    let a = args[0];
    let sym = match name {
        "add" => "+", "sub" => "-", "mul" => "*", "div" => "/", "mod" => "%", "le" => "<=", "ge" => ">=",
        "lt" => "<", "gt" => ">", "eq" => "==", "neq" => "!=", x => x,
    };
    match sym {
        "==" => return Ok(V::Bool(a == V::Int(n))),
        "!=" => return Ok(V::Bool(a != V::Int(n))),
        "+" | "-" | "*" | "/" | "%" | "<" | "<=" | ">" | ">=" => {}
        _ => return fail("no such method on integer"),
    }
    let m = match a { V::Int(m) => m as i64, _ => return fail("operand kind") };
    let n = n as i64;
    let wrap = |x: i64| V::Int(x as i32); // truncation to the low 32 bits = arithmetic modulo 2^32
    Ok(match sym {
        "+" => wrap(n + m),
        "-" => wrap(n - m),
        "*" => wrap(n.wrapping_mul(m)),
        "/" => {
            if m == 0 { return fail("division by zero") }
            let q = n / m; // i64 division truncates toward zero
            if q > i32::MAX as i64 { return fail("MIN / -1") }
            V::Int(q as i32)
        }
        "%" => {
            if m == 0 { return fail("remainder by zero") }
            V::Int((n % m) as i32) // sign of the dividend; MIN % -1 = 0
        }
        "<" => V::Bool(n < m),
        "<=" => V::Bool(n <= m),
        ">" => V::Bool(n > m),
        ">=" => V::Bool(n >= m),
        _ => unreachable!(),
    })
}

pub fn array_builtin(cells: &mut Vec<V>, name: &str, args: &[V]) -> R<V> {
    if !args.is_empty() && args[0] == V::Unk { return unspec("U3 value of built-in set observed") }
    let index = |v: V| -> R<usize> {
        match v { V::Int(i) if i >= 0 && (i as usize) < cells.len() => Ok(i as usize), _ => fail("index") }
    };
    match name {
        "get" => {
            if args.len() != 1 { return fail("builtin arity") }
            let i = index(args[0])?;
            Ok(cells[i])
        }
        "set" => {
            if args.len() != 2 { return fail("builtin arity") }
            let i = index(args[0])?;
            cells[i] = args[1];
            Ok(V::Unk) // U3: the value of the built-in set is unspecified
        }
        _ => fail("no such method on array"),
    }
}

/// the two admissible linearisations of an allocation trace (outer array of a compound
/// `array(n, e)` before or after its elements)
pub fn linearise(allocs: &[Alloc], outer_first: bool) -> Vec<Alloc> {
    let mut out = vec![];
    let mut stack: Vec<usize> = vec![];
    for a in allocs {
        match a {
            Alloc::CompoundBegin(n) => { if outer_first { out.push(Alloc::Array(*n)) } stack.push(*n) }
            Alloc::CompoundEnd => { let n = stack.pop().unwrap_or(0); if !outer_first { out.push(Alloc::Array(n)) } }
            other => out.push(other.clone()),
        }
    }
    // a failing program may leave groups open: their outer arrays exist in the outer-first order only
    out
}

pub fn run(stmts: &[E]) -> RefResult { run_with(stmts, Fuel::default(), &[]) }

pub fn run_with(stmts: &[E], fuel: Fuel, switches: &[String]) -> RefResult {
    let mut pos = HashMap::new();
    let mut ctr = 0u32;
    for s in stmts { annotate(s, &mut ctr, &mut pos) }
    let mut it = Interp {
        out: String::new(), heap: vec![], allocs: vec![], fuel, steps: 0, depth: 0, max_depth: 0, effects: 0,
        constructs: 0, funs: vec![], top_static: vec![], top_lets: vec![], pos, switches: switches.to_vec(),
    };
    let res = (|| -> R<()> {
        // static part (U2)
        let mut top: Vec<&str> = vec![];
        for s in stmts { scope_lets(s, &mut top)? }
        let mut t = top.clone(); t.sort(); t.dedup();
        if t.len() != top.len() { return unspec("U2 static redeclaration") }
        let mut body: Vec<&E> = vec![];
        for s in stmts {
            if let E::Fun(n, ps, b) = s {
                if it.funs.iter().any(|f| f.0 == n.as_str()) { return unspec("U2 duplicate function") }
                let mut p = ps.clone(); p.sort(); p.dedup();
                if p.len() != ps.len() { return unspec("U2 duplicate parameters") }
                it.funs.push((n, ps, b));
                it.constructs |= kind_bit("fun");
            } else {
                body.push(s);
                lets_in(s, &mut it.top_lets);
            }
        }
        let mut ts = vec![];
        direct_lets_of(body.iter().copied(), &it.pos, &mut ts);
        it.top_static = ts.clone();
        // The global scope's bindings live in `globals` (shared with function bodies); scope 0 of the
        // top frame only carries the static table and is redirected to `globals` by lookup/let/set.
        let mut globals = Scope::new(vec![], vec![]);
        let mut fr = Frame { scopes: vec![Scope::new(vec![], ts)], body_lets: it.top_lets.clone(), is_top: true };
        for s in body { it.ev(s, &mut fr, &mut globals)?; }
        Ok(())
    })();
    let (status, reason) = match res {
        Ok(()) => (Status::Ok, String::new()),
        Err(Stop::Fail(r)) => (Status::Fail, r),
        Err(Stop::Unspec(r)) => (Status::Unspec, r),
    };
    RefResult { status, out: it.out, reason, allocs: it.allocs, steps: it.steps, constructs: it.constructs, max_depth: it.max_depth }
}

