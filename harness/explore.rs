//! Exploration engine: per-worker context (sharding by running case index, counters, samples,
//! violations, heartbeat + watchdog, wall-clock cap) and a counting / unranking enumerator for
//! tree grammars (exact counts, random access, simplest-first order).

use serde_json::{json, Value};
use std::collections::{BTreeMap, HashSet};
use std::io::{Seek, SeekFrom, Write};
use std::path::PathBuf;
use std::sync::atomic::{AtomicU64, Ordering};
use std::sync::Arc;
use std::time::{Duration, Instant};

#[derive(Clone, Copy, PartialEq, Eq, Debug)]
pub enum Tier { Quick, Thorough }

pub struct Ctx {
    pub prop: String,
    pub tier: Tier,
    pub shard: u64,
    pub nshards: u64,
    pub seed: u64,
    pub out: PathBuf,
    pub only: Option<u64>,
    pub counters: BTreeMap<String, u64>,
    pub violations: Vec<Value>,
    pub violation_count: u64,
    pub samples: Vec<Value>,
    pub last_sample: Option<Value>,
    pub distinct: HashSet<u64>,
    pub index: u64,
    pub start: Instant,
    pub deadline: Instant,
    pub capped: bool,
    pub stages_done: Vec<String>,
    pub stages_capped: Vec<String>,
    pub notes: Vec<String>,
    stage: String,
    stage_capped: bool,
    beat: Arc<AtomicU64>,
    hb_file: Option<std::fs::File>,
    pub scratch: PathBuf,
    pub exe: PathBuf,
    time_checks: u64,
    pub table: String,
}

pub fn fnv(s: &[u8]) -> u64 {
    let mut h: u64 = 0xcbf29ce484222325;
    for b in s { h ^= *b as u64; h = h.wrapping_mul(0x100000001b3); }
    h
}

impl Ctx {
    pub fn new(prop: &str, tier: Tier, shard: u64, nshards: u64, seed: u64, out: PathBuf, only: Option<u64>, budget_s: u64) -> Ctx {
        let beat = Arc::new(AtomicU64::new(u64::MAX));
        let hb_file = std::fs::OpenOptions::new().create(true).write(true).truncate(true)
            .open(out.with_extension("hb")).ok();
        let scratch = out.with_extension("scratch");
        let _ = std::fs::create_dir_all(&scratch);
        let ctx = Ctx {
            prop: prop.to_string(), tier, shard, nshards, seed, out, only,
            counters: BTreeMap::new(), violations: vec![], violation_count: 0, samples: vec![], last_sample: None,
            distinct: HashSet::new(), index: 0, start: Instant::now(),
            deadline: Instant::now() + Duration::from_secs(budget_s), capped: false,
            stages_done: vec![], stages_capped: vec![], notes: vec![], stage: String::new(), stage_capped: false,
            beat, hb_file, scratch, exe: std::env::current_exe().unwrap_or_else(|_| PathBuf::from("fml")), time_checks: 0, table: String::new(),
        };
        ctx.spawn_watchdog();
        ctx
    }

    /// in-process watchdog: a case in flight for longer than the limit is reported as a hang
    fn spawn_watchdog(&self) {
        let beat = self.beat.clone();
        let out = self.out.clone();
        let limit = match self.tier { Tier::Quick => 20, Tier::Thorough => 60 };
        std::thread::spawn(move || {
            let mut last = u64::MAX;
            let mut since = Instant::now();
            loop {
                std::thread::sleep(Duration::from_millis(500));
                let cur = beat.load(Ordering::Relaxed);
                if cur == u64::MAX - 1 { return } // finished
                if cur != last { last = cur; since = Instant::now(); continue }
                if cur != u64::MAX && since.elapsed() > Duration::from_secs(limit) {
                    let _ = std::fs::write(out.with_extension("hang"), format!("{}", cur));
                    std::process::exit(3);
                }
            }
        });
    }

    pub fn quick(&self) -> bool { self.tier == Tier::Quick }

    pub fn stage(&mut self, name: &str) {
        self.end_stage();
        self.stage = name.to_string();
        self.stage_capped = false;
    }

    fn end_stage(&mut self) {
        if !self.stage.is_empty() {
            if self.stage_capped { self.stages_capped.push(self.stage.clone()) } else { self.stages_done.push(self.stage.clone()) }
        }
        self.stage.clear();
    }

    pub fn time_up(&mut self) -> bool {
        if self.capped { return true }
        self.time_checks += 1;
        if self.time_checks % 16 == 0 && Instant::now() > self.deadline { self.capped = true; }
        self.capped
    }

    /// Advance the running case index. Returns Some(index) if this worker owns the case
    /// (and the wall-clock cap has not been hit), None otherwise.
    pub fn take(&mut self) -> Option<u64> {
        let i = self.index;
        self.index += 1;
        if let Some(o) = self.only { return if o == i { self.begin(i); Some(i) } else { None } }
        if (i + self.seed) % self.nshards != self.shard { return None }
        if self.time_up() { self.stage_capped = true; return None }
        self.begin(i);
        Some(i)
    }

    /// skip `n` indices at once (for universes with random access)
    pub fn skip(&mut self, n: u64) { self.index += n }

    /// first index >= self.index owned by this worker, as an offset from self.index
    pub fn next_owned_offset(&self) -> u64 {
        if let Some(o) = self.only { return if o >= self.index { o - self.index } else { u64::MAX } }
        let r = (self.index + self.seed) % self.nshards;
        (self.shard + self.nshards - r) % self.nshards
    }

    fn begin(&mut self, i: u64) {
        self.beat.store(i, Ordering::Relaxed);
        if let Some(f) = &mut self.hb_file {
            let _ = f.seek(SeekFrom::Start(0));
            let _ = f.write_all(format!("{:<24}", i).as_bytes());
        }
        self.count("cases", 1);
    }

    /// record a description of the case in flight (kept in the heartbeat file, so that the driver can
    /// attribute a native crash or a hang to its input)
    pub fn describe(&mut self, text: &str) {
        if let Some(f) = &mut self.hb_file {
            let _ = f.seek(SeekFrom::Start(24));
            let t: String = text.chars().take(1500).collect();
            let _ = f.write_all(format!("\n{}\n\u{0}", t).as_bytes());
        }
    }

    pub fn count(&mut self, k: &str, n: u64) {
        if let Some(v) = self.counters.get_mut(k) { *v += n } else { self.counters.insert(k.to_string(), n); }
    }

    pub fn max(&mut self, k: &str, n: u64) {
        let key = format!("max:{}", k);
        let e = self.counters.entry(key).or_insert(0);
        if n > *e { *e = n }
    }

    pub fn nontrivial(&mut self, identity: &[u8]) { self.distinct.insert(fnv(identity)); }

    /// strings of more than 20 000 bytes in a record are cut to their first 2 000 characters (the case
    /// index regenerates the full text; U-SCALE programs are megabytes long)
    fn shorten(v: &mut Value) {
        match v {
            Value::String(s) if s.len() > 20_000 => {
                let head: String = s.chars().take(2_000).collect();
                *s = format!("{} ...[cut: {} bytes in all; re-run the case index for the full text]", head, s.len());
            }
            Value::Array(a) => for x in a { Self::shorten(x) },
            Value::Object(m) => for (_, x) in m.iter_mut() { Self::shorten(x) },
            _ => {}
        }
    }

    pub fn sample(&mut self, mut v: Value) {
        Self::shorten(&mut v);
        if self.samples.len() < 4 { self.samples.push(v) } else { self.last_sample = Some(v) }
    }

    pub fn want_sample(&self) -> bool { self.samples.len() < 4 || self.index % 4096 < self.nshards }

    pub fn violation(&mut self, key: &str, what: &str, mut detail: Value) {
        Self::shorten(&mut detail);
        self.violation_count += 1;
        self.count(&format!("violation:{}", key), 1);
        let same_key = *self.counters.get(&format!("violation:{}", key)).unwrap_or(&0);
        if same_key <= 8 && self.violations.len() < 400 {
            self.violations.push(json!({"key": key, "what": what, "index": self.index.saturating_sub(1), "stage": self.stage, "detail": detail}));
        }
    }

    /// one line of the fingerprint table (compared by the driver across build profiles / shardings)
    pub fn fingerprint(&mut self, id: &str, value: &str) {
        self.table.push_str(id);
        self.table.push('\t');
        self.table.push_str(&value.replace('\n', "\\n").replace('\t', "\\t"));
        self.table.push('\n');
    }

    pub fn note(&mut self, s: &str) { if !self.notes.iter().any(|n| n == s) { self.notes.push(s.to_string()) } }

    pub fn finish(mut self) {
        self.end_stage();
        self.beat.store(u64::MAX - 1, Ordering::Relaxed);
        // distinct hashes: raw little-endian u64s
        let mut buf: Vec<u8> = Vec::with_capacity(self.distinct.len() * 8);
        for h in &self.distinct { buf.extend_from_slice(&h.to_le_bytes()) }
        let _ = std::fs::write(self.out.with_extension("distinct"), &buf);
        if !self.table.is_empty() { let _ = std::fs::write(self.out.with_extension("table"), self.table.as_bytes()); }
        let mut samples = self.samples.clone();
        if let Some(l) = self.last_sample.take() { samples.push(l) }
        let report = json!({
            "property": self.prop, "shard": [self.shard, self.nshards], "seed": self.seed,
            "tier": if self.tier == Tier::Quick { "quick" } else { "thorough" },
            "counters": self.counters, "violations": self.violations, "violation_count": self.violation_count,
            "samples": samples, "distinct_local": self.distinct.len(), "indices": self.index,
            "capped": self.capped, "stages_done": self.stages_done, "stages_capped": self.stages_capped,
            "notes": self.notes, "wall_s": self.start.elapsed().as_secs_f64(),
        });
        let _ = std::fs::remove_dir_all(&self.scratch);
        std::fs::write(&self.out, serde_json::to_vec(&report).unwrap()).expect("cannot write worker report");
    }
}

pub fn merge_distinct(files: &[String]) -> u64 {
    let mut all: Vec<u64> = vec![];
    for f in files {
        if let Ok(b) = std::fs::read(f) {
            for c in b.chunks_exact(8) { all.push(u64::from_le_bytes([c[0], c[1], c[2], c[3], c[4], c[5], c[6], c[7]])) }
        }
    }
    all.sort_unstable();
    all.dedup();
    all.len() as u64
}

// ------------------------------------------------------------------ grammar enumerator

pub struct Prod<T> {
    pub kids: Vec<usize>,
    pub weight: usize,
    pub build: Box<dyn Fn(Vec<T>) -> T>,
}

pub struct Grammar<T> {
    pub nts: Vec<Vec<Prod<T>>>,
    counts: Vec<Vec<u128>>, // [nt][size]
}

impl<T> Grammar<T> {
    pub fn new(n_nonterminals: usize) -> Self {
        Grammar { nts: (0..n_nonterminals).map(|_| vec![]).collect(), counts: vec![] }
    }

    pub fn leaf(&mut self, nt: usize, f: impl Fn() -> T + 'static) {
        self.nts[nt].push(Prod { kids: vec![], weight: 1, build: Box::new(move |_| f()) });
    }

    pub fn prod(&mut self, nt: usize, kids: &[usize], f: impl Fn(Vec<T>) -> T + 'static) {
        self.nts[nt].push(Prod { kids: kids.to_vec(), weight: 1, build: Box::new(f) });
    }

    pub fn prod_w(&mut self, nt: usize, weight: usize, kids: &[usize], f: impl Fn(Vec<T>) -> T + 'static) {
        self.nts[nt].push(Prod { kids: kids.to_vec(), weight, build: Box::new(f) });
    }

    /// number of ways to derive the kid sequence `kids` with total size `s`
    fn seq_count(&self, kids: &[usize], s: usize) -> u128 {
        if kids.is_empty() { return if s == 0 { 1 } else { 0 } }
        if kids.len() == 1 { return self.count(kids[0], s) }
        let mut total = 0u128;
        // every kid needs at least size 1
        for s0 in 1..=(s.saturating_sub(kids.len() - 1)) {
            let c0 = self.count(kids[0], s0);
            if c0 == 0 { continue }
            total += c0 * self.seq_count(&kids[1..], s - s0);
        }
        total
    }

    pub fn count(&self, nt: usize, size: usize) -> u128 {
        if size < self.counts[nt].len() { self.counts[nt][size] } else { 0 }
    }

    /// fill the count table up to `max` nodes. Rows are filled nonterminal by nonterminal, so a
    /// weight-0 production with a single kid may refer to a nonterminal with a smaller index.
    pub fn prepare(&mut self, max: usize) {
        self.counts = (0..self.nts.len()).map(|_| vec![0u128]).collect();
        for size in 1..=max {
            for nt in 0..self.nts.len() { self.counts[nt].push(0) }
            for nt in 0..self.nts.len() {
                let mut c = 0u128;
                for p in &self.nts[nt] {
                    if size < p.weight { continue }
                    if p.weight == 0 && p.kids.len() == 1 { assert!(p.kids[0] < nt, "weight-0 unit production must refer to an earlier nonterminal") }
                    c += self.seq_count(&p.kids, size - p.weight);
                }
                self.counts[nt][size] = c;
            }
        }
    }

    fn unrank_seq(&self, kids: &[usize], s: usize, mut idx: u128, out: &mut Vec<T>) {
        if kids.is_empty() { return }
        if kids.len() == 1 { out.push(self.unrank(kids[0], s, idx)); return }
        for s0 in 1..=(s.saturating_sub(kids.len() - 1)) {
            let c0 = self.count(kids[0], s0);
            if c0 == 0 { continue }
            let rest = self.seq_count(&kids[1..], s - s0);
            let block = c0 * rest;
            if idx < block {
                out.push(self.unrank(kids[0], s0, idx / rest));
                self.unrank_seq(&kids[1..], s - s0, idx % rest, out);
                return;
            }
            idx -= block;
        }
        panic!("unrank_seq: index out of range");
    }

    pub fn unrank(&self, nt: usize, size: usize, mut idx: u128) -> T {
        for p in &self.nts[nt] {
            if size < p.weight { continue }
            let c = self.seq_count(&p.kids, size - p.weight);
            if idx < c {
                let mut kids = Vec::with_capacity(p.kids.len());
                self.unrank_seq(&p.kids, size - p.weight, idx, &mut kids);
                return (p.build)(kids);
            }
            idx -= c;
        }
        panic!("unrank: index out of range");
    }

    pub fn total_upto(&self, nt: usize, max: usize) -> u128 { (1..=max).map(|s| self.count(nt, s)).sum() }

    /// materialise everything of nonterminal `nt` with exactly `size` nodes
    pub fn all(&self, nt: usize, size: usize) -> Vec<T> {
        let n = self.count(nt, size);
        (0..n).map(|i| self.unrank(nt, size, i)).collect()
    }
}

/// Visit the trees of `g`/`nt` with sizes lo..=hi owned by this worker, simplest first.
pub fn for_each_owned<T>(ctx: &mut Ctx, g: &Grammar<T>, nt: usize, lo: usize, hi: usize, mut f: impl FnMut(&mut Ctx, usize, T)) {
    for size in lo..=hi {
        let n = g.count(nt, size);
        let n64 = n as u64;
        let base = ctx.index;
        loop {
            let off = ctx.next_owned_offset();
            let done = ctx.index - base;
            if off == u64::MAX || done + off >= n64 { break }
            ctx.skip(off);
            let rank = ctx.index - base;
            if let Some(_) = ctx.take() {
                let t = g.unrank(nt, size, rank as u128);
                f(ctx, size, t);
            } else if ctx.capped { break }
        }
        // position the index at the end of this size class
        ctx.index = base + n64;
        if ctx.capped { break }
    }
}
