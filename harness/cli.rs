//! Running the real `fml` command line as a child process (the hooked binary behaves exactly
//! like the stock CLI when its first argument is not `__verif`).

use std::io::Write;
use std::os::unix::process::ExitStatusExt;
use std::path::{Path, PathBuf};
use std::process::{Command, Stdio};
use std::time::{Duration, Instant};

#[derive(Clone, Debug)]
pub struct CliResult {
    pub code: Option<i32>,
    pub signal: Option<i32>,
    pub stdout: Vec<u8>,
    pub stderr: Vec<u8>,
    pub timed_out: bool,
}

impl CliResult {
    pub fn out(&self) -> String { String::from_utf8_lossy(&self.stdout).to_string() }
    pub fn err(&self) -> String { String::from_utf8_lossy(&self.stderr).to_string() }
    pub fn ok(&self) -> bool { self.code == Some(0) }
    pub fn clean_exit(&self) -> bool { self.code.is_some() && self.signal.is_none() && !self.timed_out }
}

pub fn run(exe: &Path, args: &[&str], stdin: Option<&[u8]>, cwd: Option<&Path>, env: &[(&str, &str)], timeout: Duration) -> CliResult {
    let mut cmd = Command::new(exe);
    cmd.args(args).stdout(Stdio::piped()).stderr(Stdio::piped());
    cmd.stdin(if stdin.is_some() { Stdio::piped() } else { Stdio::null() });
    cmd.env("RUST_BACKTRACE", "0");
    for (k, v) in env { cmd.env(k, v); }
    if let Some(d) = cwd { cmd.current_dir(d); }
    let mut child = match cmd.spawn() {
        Ok(c) => c,
        Err(e) => return CliResult { code: None, signal: None, stdout: vec![], stderr: format!("spawn failed: {}", e).into_bytes(), timed_out: false },
    };
    if let Some(data) = stdin {
        if let Some(mut si) = child.stdin.take() { let _ = si.write_all(data); }
    }
    // read both pipes on helper threads so that a chatty child cannot block
    let mut so = child.stdout.take().unwrap();
    let mut se = child.stderr.take().unwrap();
    let t1 = std::thread::spawn(move || { let mut b = vec![]; let _ = std::io::Read::read_to_end(&mut so, &mut b); b });
    let t2 = std::thread::spawn(move || { let mut b = vec![]; let _ = std::io::Read::read_to_end(&mut se, &mut b); b });
    let start = Instant::now();
    let mut timed_out = false;
    let status = loop {
        match child.try_wait() {
            Ok(Some(s)) => break Some(s),
            Ok(None) => {
                if start.elapsed() > timeout { let _ = child.kill(); timed_out = true; break child.wait().ok() }
                std::thread::sleep(Duration::from_millis(if start.elapsed() < Duration::from_millis(20) { 1 } else { 5 }));
            }
            Err(_) => break None,
        }
    };
    let stdout = t1.join().unwrap_or_default();
    let stderr = t2.join().unwrap_or_default();
    CliResult { code: status.and_then(|s| s.code()), signal: status.and_then(|s| s.signal()), stdout, stderr, timed_out }
}

pub fn simple(exe: &Path, args: &[&str]) -> CliResult { run(exe, args, None, None, &[], Duration::from_secs(20)) }

pub fn write_file(dir: &Path, name: &str, content: &[u8]) -> PathBuf {
    let p = dir.join(name);
    if let Some(parent) = p.parent() { let _ = std::fs::create_dir_all(parent); }
    std::fs::write(&p, content).expect("cannot write scratch file");
    p
}
