//! Harness-side source tree, printers (Appendix D of DESIGN.md) and helpers.
//! Independent of the repository's `AST` type: universes and reference models work on `E`.

use std::fmt::Write;

#[derive(Clone, Debug, PartialEq, Eq, Hash)]
pub enum E {
    Int(i32),
    Bool(bool),
    Null,
    Var(String),
    Let(String, Box<E>),
    Set(String, Box<E>),
    Block(Vec<E>),
    /// condition, consequent, optional alternative (None prints no `else`; parses to `null`)
    If(Box<E>, Box<E>, Option<Box<E>>),
    While(Box<E>, Box<E>),
    Call(String, Vec<E>),
    Array(Box<E>, Box<E>),
    Idx(Box<E>, Box<E>),
    IdxSet(Box<E>, Box<E>, Box<E>),
    /// optional parent (None prints no `extends`; parses to `null`), members
    Object(Option<Box<E>>, Vec<Member>),
    FGet(Box<E>, String),
    FSet(Box<E>, String, Box<E>),
    /// receiver.name(args): name may be an identifier, `print`, or an operator symbol
    MCall(Box<E>, String, Vec<E>),
    /// infix `l op r`  (parses to the same tree as MCall(l, op, [r]))
    BinOp(String, Box<E>, Box<E>),
    /// raw format text exactly as written between the quotes, arguments
    Print(String, Vec<E>),
    /// top-level function definition
    Fun(String, Vec<String>, Box<E>),
}

#[derive(Clone, Debug, PartialEq, Eq, Hash)]
pub enum Member {
    Field(String, E),
    Method(String, Vec<String>, E),
}

pub fn b(e: E) -> Box<E> { Box::new(e) }
pub fn int(i: i32) -> E { E::Int(i) }
pub fn var(n: &str) -> E { E::Var(n.to_string()) }
pub fn let_(n: &str, v: E) -> E { E::Let(n.to_string(), b(v)) }
pub fn set(n: &str, v: E) -> E { E::Set(n.to_string(), b(v)) }
pub fn block(v: Vec<E>) -> E { E::Block(v) }
pub fn if_(c: E, t: E, f: Option<E>) -> E { E::If(b(c), b(t), f.map(b)) }
pub fn while_(c: E, body: E) -> E { E::While(b(c), b(body)) }
pub fn call(n: &str, a: Vec<E>) -> E { E::Call(n.to_string(), a) }
pub fn array(n: E, v: E) -> E { E::Array(b(n), b(v)) }
pub fn idx(a: E, i: E) -> E { E::Idx(b(a), b(i)) }
pub fn idxset(a: E, i: E, v: E) -> E { E::IdxSet(b(a), b(i), b(v)) }
pub fn object(p: Option<E>, m: Vec<Member>) -> E { E::Object(p.map(b), m) }
pub fn field(n: &str, v: E) -> Member { Member::Field(n.to_string(), v) }
pub fn method(n: &str, ps: &[&str], body: E) -> Member {
    Member::Method(n.to_string(), ps.iter().map(|s| s.to_string()).collect(), body)
}
pub fn fget(o: E, f: &str) -> E { E::FGet(b(o), f.to_string()) }
pub fn fset(o: E, f: &str, v: E) -> E { E::FSet(b(o), f.to_string(), b(v)) }
pub fn mcall(o: E, n: &str, a: Vec<E>) -> E { E::MCall(b(o), n.to_string(), a) }
pub fn binop(op: &str, l: E, r: E) -> E { E::BinOp(op.to_string(), b(l), b(r)) }
pub fn print(f: &str, a: Vec<E>) -> E { E::Print(f.to_string(), a) }
pub fn fun(n: &str, ps: &[&str], body: E) -> E {
    E::Fun(n.to_string(), ps.iter().map(|s| s.to_string()).collect(), b(body))
}

pub const OPERATORS: [&str; 13] = ["*", "/", "%", "+", "-", "==", "!=", "<", "<=", ">", ">=", "&", "|"];

/// README precedence table (higher binds tighter); comparison covers all six relational operators.
pub fn level(op: &str) -> u8 {
    match op {
        "*" | "/" | "%" => 5,
        "+" | "-" => 4,
        "==" | "!=" | "<" | "<=" | ">" | ">=" => 3,
        "&" => 2,
        "|" => 1,
        _ => 0,
    }
}

pub fn is_operator(name: &str) -> bool { level(name) > 0 }

impl E {
    /// number of nodes (members count one each plus their expression)
    pub fn size(&self) -> usize {
        use E::*;
        1 + match self {
            Int(_) | Bool(_) | Null | Var(_) => 0,
            Let(_, v) | Set(_, v) => v.size(),
            Block(v) => v.iter().map(|x| x.size()).sum(),
            If(c, t, f) => c.size() + t.size() + f.as_ref().map_or(0, |x| x.size()),
            While(c, body) => c.size() + body.size(),
            Call(_, a) => a.iter().map(|x| x.size()).sum(),
            Array(n, v) => n.size() + v.size(),
            Idx(a, i) => a.size() + i.size(),
            IdxSet(a, i, v) => a.size() + i.size() + v.size(),
            Object(p, ms) => p.as_ref().map_or(0, |x| x.size()) + ms.iter().map(|m| match m {
                Member::Field(_, v) => 1 + v.size(),
                Member::Method(_, _, body) => 1 + body.size(),
            }).sum::<usize>(),
            FGet(o, _) => o.size(),
            FSet(o, _, v) => o.size() + v.size(),
            MCall(o, _, a) => o.size() + a.iter().map(|x| x.size()).sum::<usize>(),
            BinOp(_, l, r) => l.size() + r.size(),
            Print(_, a) => a.iter().map(|x| x.size()).sum(),
            Fun(_, _, body) => body.size(),
        }
    }

    /// constructor name, for coverage counters
    pub fn kind(&self) -> &'static str {
        use E::*;
        match self {
            Int(_) => "int", Bool(_) => "bool", Null => "null", Var(_) => "var", Let(..) => "let",
            Set(..) => "set", Block(_) => "block", If(_, _, None) => "if", If(..) => "ifelse",
            While(..) => "while", Call(..) => "call", Array(..) => "array", Idx(..) => "idx",
            IdxSet(..) => "idxset", Object(..) => "object", FGet(..) => "fget", FSet(..) => "fset",
            MCall(..) => "mcall", BinOp(..) => "binop", Print(..) => "print", Fun(..) => "fun",
        }
    }

    pub fn children(&self) -> Vec<&E> {
        use E::*;
        match self {
            Int(_) | Bool(_) | Null | Var(_) => vec![],
            Let(_, v) | Set(_, v) => vec![v],
            Block(v) => v.iter().collect(),
            If(c, t, f) => { let mut r: Vec<&E> = vec![c, t]; if let Some(f) = f { r.push(f) } r }
            While(c, body) => vec![c, body],
            Call(_, a) | Print(_, a) => a.iter().collect(),
            Array(n, v) => vec![n, v],
            Idx(a, i) => vec![a, i],
            IdxSet(a, i, v) => vec![a, i, v],
            Object(p, ms) => {
                let mut r: Vec<&E> = vec![];
                if let Some(p) = p { r.push(p) }
                for m in ms { match m { Member::Field(_, v) => r.push(v), Member::Method(_, _, body) => r.push(body) } }
                r
            }
            FGet(o, _) => vec![o],
            FSet(o, _, v) => vec![o, v],
            MCall(o, _, a) => { let mut r: Vec<&E> = vec![o]; r.extend(a.iter()); r }
            BinOp(_, l, r) => vec![l, r],
            Fun(_, _, body) => vec![body],
        }
    }

    pub fn walk<F: FnMut(&E)>(&self, f: &mut F) {
        f(self);
        for c in self.children() { c.walk(f) }
    }

    /// The tree the parser builds for this text: infix operators become method calls, a missing
    /// `else` / `extends` becomes `null`, a block without statements becomes `null`.
    pub fn normalize(&self) -> E {
        use E::*;
        let n = |x: &Box<E>| b(x.normalize());
        let nv = |v: &Vec<E>| v.iter().map(|x| x.normalize()).collect::<Vec<E>>();
        match self {
            Int(_) | Bool(_) | Null | Var(_) => self.clone(),
            Let(s, v) => Let(s.clone(), n(v)),
            Set(s, v) => Set(s.clone(), n(v)),
            Block(v) => if v.is_empty() { Null } else { Block(nv(v)) },
            If(c, t, f) => If(n(c), n(t), Some(f.as_ref().map_or(b(Null), |x| n(x)))),
            While(c, body) => While(n(c), n(body)),
            Call(s, a) => Call(s.clone(), nv(a)),
            Array(x, y) => Array(n(x), n(y)),
            Idx(a, i) => Idx(n(a), n(i)),
            IdxSet(a, i, v) => IdxSet(n(a), n(i), n(v)),
            Object(p, ms) => Object(Some(p.as_ref().map_or(b(Null), |x| n(x))), ms.iter().map(|m| match m {
                Member::Field(s, v) => Member::Field(s.clone(), v.normalize()),
                Member::Method(s, ps, body) => Member::Method(s.clone(), ps.clone(), body.normalize()),
            }).collect()),
            FGet(o, s) => FGet(n(o), s.clone()),
            FSet(o, s, v) => FSet(n(o), s.clone(), n(v)),
            MCall(o, s, a) => MCall(n(o), s.clone(), nv(a)),
            BinOp(op, l, r) => MCall(n(l), op.clone(), vec![r.normalize()]),
            Print(s, a) => Print(s.clone(), nv(a)),
            Fun(s, ps, body) => Fun(s.clone(), ps.clone(), n(body)),
        }
    }
}

// ------------------------------------------------------------------------------------- printer

#[derive(Clone, Copy, PartialEq, Eq, Debug)]
pub enum Parens {
    /// parentheses only where the grammar needs them
    Minimal,
    /// like Minimal, but every nested binary operation is parenthesised (the conservative form
    /// used by the semantic universes)
    Safe,
    /// a pair of parentheses around every sub-expression that may carry one
    Full,
}

pub struct Printer { pub parens: Parens, pub sep: &'static str }

/// kinds that derive from the grammar's `Accessible` (may stand to the left of `.`/`[` and as operands)
fn is_accessible(e: &E) -> bool {
    use E::*;
    match e {
        Int(_) | Bool(_) | Null | Var(_) | Call(..) | Array(..) | Idx(..) | MCall(..) => true,
        Block(_) => true,
        _ => false,
    }
}

/// `Operand`: an accessible or a field chain rooted in one (or in something we will parenthesise)
fn is_operand(e: &E) -> bool { is_accessible(e) || matches!(e, E::FGet(..)) }

/// does the printed form end in an `if` without `else` (looking through right-open tails)?
fn ends_in_open_if(e: &E) -> bool {
    use E::*;
    match e {
        If(_, t, None) => { let _ = t; true }
        If(_, _, Some(f)) => ends_in_open_if(f),
        Let(_, v) | Set(_, v) => ends_in_open_if(v),
        While(_, body) => ends_in_open_if(body),
        FSet(_, _, v) => ends_in_open_if(v),
        IdxSet(_, _, v) => ends_in_open_if(v),
        Fun(_, _, body) => ends_in_open_if(body),
        _ => false,
    }
}

impl Printer {
    pub fn new(parens: Parens) -> Self { Printer { parens, sep: " " } }

    pub fn program(&self, stmts: &[E]) -> String {
        let mut s = String::new();
        for (i, st) in stmts.iter().enumerate() {
            if i > 0 { s.push_str(";\n") }
            self.top(st, &mut s);
        }
        s
    }

    fn top(&self, e: &E, out: &mut String) {
        match e {
            E::Fun(name, ps, body) => {
                let _ = write!(out, "function {}({}) -> ", name, ps.join(", "));
                self.any(body, out);
            }
            _ => self.any_noparen_top(e, out),
        }
    }

    fn any_noparen_top(&self, e: &E, out: &mut String) { self.any(e, out) }

    /// any-expression position
    pub fn any(&self, e: &E, out: &mut String) {
        if self.parens == Parens::Full && !matches!(e, E::Fun(..)) {
            out.push('(');
            self.bare(e, out);
            out.push(')');
        } else {
            self.bare(e, out);
        }
    }

    /// operand / receiver position
    fn operand(&self, e: &E, out: &mut String) {
        if self.parens == Parens::Full || !is_operand(e) {
            out.push('(');
            self.bare(e, out);
            out.push(')');
        } else {
            self.bare(e, out);
        }
    }

    fn args(&self, a: &[E], out: &mut String) {
        for (i, x) in a.iter().enumerate() {
            if i > 0 { out.push_str(", ") }
            self.any(x, out);
        }
    }

    fn binop_operand(&self, parent_level: u8, right: bool, e: &E, out: &mut String) {
        if self.parens == Parens::Minimal {
            if let E::BinOp(op, ..) = e {
                let l = level(op);
                if (!right && l >= parent_level) || (right && l > parent_level) {
                    self.bare(e, out);
                    return;
                }
            }
        }
        self.operand(e, out)
    }

    pub fn bare(&self, e: &E, out: &mut String) {
        use E::*;
        match e {
            Int(i) => { let _ = write!(out, "{}", i); }
            Bool(true) => out.push_str("true"),
            Bool(false) => out.push_str("false"),
            Null => out.push_str("null"),
            Var(n) => out.push_str(n),
            Let(n, v) => { let _ = write!(out, "let {} = ", n); self.any(v, out) }
            Set(n, v) => { let _ = write!(out, "{} <- ", n); self.any(v, out) }
            Block(v) => {
                out.push_str("begin");
                for (i, x) in v.iter().enumerate() {
                    out.push_str(if i > 0 { "; " } else { " " });
                    self.any(x, out);
                }
                out.push_str(" end");
            }
            If(c, t, f) => {
                out.push_str("if ");
                self.any(c, out);
                out.push_str(" then ");
                match f {
                    Some(f) => {
                        if self.parens != Parens::Full && ends_in_open_if(t) {
                            out.push('('); self.bare(t, out); out.push(')');
                        } else { self.any(t, out) }
                        out.push_str(" else ");
                        self.any(f, out);
                    }
                    None => self.any(t, out),
                }
            }
            While(c, body) => { out.push_str("while "); self.any(c, out); out.push_str(" do "); self.any(body, out) }
            Call(n, a) => { out.push_str(n); out.push('('); self.args(a, out); out.push(')') }
            Array(n, v) => { out.push_str("array("); self.any(n, out); out.push_str(", "); self.any(v, out); out.push(')') }
            Idx(a, i) => { self.operand(a, out); out.push('['); self.any(i, out); out.push(']') }
            IdxSet(a, i, v) => { self.operand(a, out); out.push('['); self.any(i, out); out.push_str("] <- "); self.any(v, out) }
            Object(p, ms) => {
                out.push_str("object ");
                if let Some(p) = p {
                    out.push_str("extends ");
                    if self.parens == Parens::Minimal { self.any(p, out) } else { self.operand(p, out) }
                    out.push(' ');
                }
                out.push_str("begin");
                for (i, m) in ms.iter().enumerate() {
                    out.push_str(if i > 0 { "; " } else { " " });
                    match m {
                        Member::Field(n, v) => { let _ = write!(out, "let {} = ", n); self.any(v, out) }
                        Member::Method(n, ps, body) => {
                            let _ = write!(out, "function {}({}) -> ", n, ps.join(", "));
                            self.any(body, out)
                        }
                    }
                }
                out.push_str(" end");
            }
            FGet(o, f) => { self.operand(o, out); out.push('.'); out.push_str(f) }
            FSet(o, f, v) => { self.operand(o, out); out.push('.'); out.push_str(f); out.push_str(" <- "); self.any(v, out) }
            MCall(o, n, a) => { self.operand(o, out); out.push('.'); out.push_str(n); out.push('('); self.args(a, out); out.push(')') }
            BinOp(op, l, r) => {
                let lv = level(op);
                self.binop_operand(lv, false, l, out);
                out.push(' '); out.push_str(op); out.push(' ');
                self.binop_operand(lv, true, r, out);
            }
            Print(f, a) => {
                out.push_str("print(\""); out.push_str(f); out.push('"');
                for x in a { out.push_str(", "); self.any(x, out) }
                out.push(')');
            }
            Fun(name, ps, body) => {
                let _ = write!(out, "function {}({}) -> ", name, ps.join(", "));
                self.any(body, out);
            }
        }
    }
}

/// conservative printer used by the semantic universes
pub fn show(stmts: &[E]) -> String { Printer::new(Parens::Safe).program(stmts) }
pub fn show_expr(e: &E) -> String { let mut s = String::new(); Printer::new(Parens::Safe).any(e, &mut s); s }
pub fn show_min(stmts: &[E]) -> String { Printer::new(Parens::Minimal).program(stmts) }
pub fn show_full(stmts: &[E]) -> String { Printer::new(Parens::Full).program(stmts) }

pub const KEYWORDS: [&str; 17] = ["begin", "end", "if", "then", "else", "let", "null", "print", "object",
    "extends", "while", "do", "function", "array", "true", "false", "this"];
