//! Layout transformations of valid bytecode programs (C05): each produces a program that the
//! instruction documentation gives the SAME meaning, in a shape the repository's own compiler
//! never emits (other label names, slot numbering, constant order/duplication, method layout,
//! entry ending in return, globals order, Feeny spellings of built-in methods).

use super::codec::{Const, Ins, Prog};
use std::collections::HashSet;

fn map_ins(i: Ins, f: &dyn Fn(u16) -> u16) -> Ins {
    use Ins::*;
    match i {
        Label(a) => Label(f(a)), Lit(a) => Lit(f(a)), Print(a, b) => Print(f(a), b), Object(a) => Object(f(a)), GetSlot(a) => GetSlot(f(a)),
        SetSlot(a) => SetSlot(f(a)), CallSlot(a, b) => CallSlot(f(a), b), Call(a, b) => Call(f(a), b), SetGlobal(a) => SetGlobal(f(a)),
        GetGlobal(a) => GetGlobal(f(a)), Branch(a) => Branch(f(a)), Goto(a) => Goto(f(a)),
        SetLocal(_) | GetLocal(_) | Array | Return | Drop => i,
    }
}

fn map_const(c: &Const, f: &dyn Fn(u16) -> u16) -> Const {
    match c {
        Const::Method { name, arity, locals, code } => Const::Method { name: f(*name), arity: *arity, locals: *locals, code: code.iter().map(|i| map_ins(*i, f)).collect() },
        Const::Slot(n) => Const::Slot(f(*n)),
        Const::Class(ms) => Const::Class(ms.iter().map(|m| f(*m)).collect()),
        other => other.clone(),
    }
}

/// reorder the pool: new pool = old[perm[0]], old[perm[1]], ...
fn permute(p: &Prog, perm: &[usize]) -> Prog {
    let mut inv = vec![0u16; p.consts.len()];
    for (new, old) in perm.iter().enumerate() { inv[*old] = new as u16 }
    let f = |i: u16| -> u16 { inv.get(i as usize).cloned().unwrap_or(i) };
    Prog { consts: perm.iter().map(|o| map_const(&p.consts[*o], &f)).collect(), globals: p.globals.iter().map(|g| f(*g)).collect(), entry: f(p.entry) }
}

/// the entry method must end in `return` once it is no longer the last method in the code
pub fn entry_with_return(p: &Prog) -> Prog {
    let mut q = p.clone();
    if let Some(Const::Method { code, .. }) = q.consts.get_mut(p.entry as usize) { if code.last() != Some(&Ins::Return) { code.push(Ins::Return) } }
    q
}

pub fn reverse_pool(p: &Prog) -> Prog { let q = entry_with_return(p); let perm: Vec<usize> = (0..q.consts.len()).rev().collect(); permute(&q, &perm) }

pub fn methods_first(p: &Prog) -> Prog {
    let q = entry_with_return(p);
    let mut perm: Vec<usize> = (0..q.consts.len()).filter(|i| matches!(q.consts[*i], Const::Method { .. })).collect();
    perm.extend((0..q.consts.len()).filter(|i| !matches!(q.consts[*i], Const::Method { .. })));
    permute(&q, &perm)
}

pub fn entry_first(p: &Prog) -> Prog {
    let q = entry_with_return(p);
    let e = q.entry as usize;
    let mut perm = vec![e];
    perm.extend((0..q.consts.len()).filter(|i| *i != e));
    permute(&q, &perm)
}

/// unused and duplicate constants in front of, between and behind the real ones
pub fn pad_pool(p: &Prog) -> Prog {
    let junk = vec![Const::Int(424242), Const::Str("unused".into()), Const::Null, Const::Str("λ:".into()), Const::Bool(false), Const::Int(0), Const::Str("+".into()), Const::Str("get".into())];
    let shift = junk.len() as u16;
    let f = |i: u16| i + shift;
    let mut consts = junk.clone();
    consts.extend(p.consts.iter().map(|c| map_const(c, &f)));
    // behind: copies of the program's own non-method constants (duplicates that nothing refers to)
    let dups: Vec<Const> = p.consts.iter().filter(|c| !matches!(c, Const::Method { .. })).take(6).map(|c| map_const(c, &f)).collect();
    consts.extend(dups);
    // the entry method stays the last METHOD, so it needs no return
    Prog { consts, globals: p.globals.iter().map(|g| f(*g)).collect(), entry: f(p.entry) }
}

/// every operand of every instruction gets its own copy of the constant it names (a non-interning compiler)
pub fn private_constants(p: &Prog) -> Prog {
    let mut q = p.clone();
    let n = p.consts.len();
    let mut extra: Vec<Const> = vec![];
    for ci in 0..n {
        if let Const::Method { code, .. } = &p.consts[ci] {
            let mut new_code = code.clone();
            for (pc, ins) in code.iter().enumerate() {
                let (a, _) = ins.operands();
                if let Some(a) = a {
                    if matches!(ins, Ins::GetLocal(_) | Ins::SetLocal(_) | Ins::Object(_)) { continue }
                    if let Some(c) = p.consts.get(a as usize) {
                        if matches!(c, Const::Int(_) | Const::Null | Const::Bool(_) | Const::Str(_)) {
                            let ni = (n + extra.len()) as u16;
                            extra.push(c.clone());
                            new_code[pc] = map_ins(*ins, &|_| ni);
                        }
                    }
                }
            }
            if let Const::Method { code: c2, .. } = &mut q.consts[ci] { *c2 = new_code }
        }
    }
    q.consts.extend(extra);
    q
}

/// consistent renaming of every label (jumps and definitions); `style` picks the naming scheme
pub fn rename_labels(p: &Prog, style: usize) -> Prog {
    let mut q = p.clone();
    let n = p.consts.len();
    let mut names: Vec<String> = vec![];
    for c in &p.consts { if let Const::Method { code, .. } = c { for i in code { if let Ins::Label(a) = i { if let Some(Const::Str(s)) = p.consts.get(*a as usize) { if !names.contains(s) { names.push(s.clone()) } } } } } }
    // candidate names that collide with nothing else: functions/globals/fields live in other name spaces, so reusing them is legal
    let reuse: Vec<String> = p.consts.iter().filter_map(|c| if let Const::Str(s) = c { Some(s.clone()) } else { None }).filter(|s| !names.contains(s)).collect();
    let new_name = |k: usize| -> String {
        match style {
            0 => format!("L{}", k),
            1 => if k < reuse.len() { reuse[k].clone() } else { format!("L{}", k) },
            2 => format!("étiquette {} 👍", k),
            _ => format!("if:consequent:{}", 1000 + k), // compiler-like, but different numbers
        }
    };
    let mut extra: Vec<Const> = vec![];
    let mut index_of: Vec<u16> = vec![];
    for k in 0..names.len() { index_of.push((n + extra.len()) as u16); extra.push(Const::Str(new_name(k))) }
    for ci in 0..n {
        if let Const::Method { code, .. } = &mut q.consts[ci] {
            for ins in code.iter_mut() {
                let a = match ins { Ins::Label(a) | Ins::Goto(a) | Ins::Branch(a) => *a, _ => continue };
                if let Some(Const::Str(s)) = p.consts.get(a as usize) {
                    if let Some(k) = names.iter().position(|x| x == s) { *ins = map_ins(*ins, &|_| index_of[k]) }
                }
            }
        }
    }
    q.consts.extend(extra);
    q
}

/// jumps name their label through a different constant (same string) than the label instruction
pub fn split_label_constants(p: &Prog) -> Prog {
    let mut q = p.clone();
    let n = p.consts.len();
    let mut extra: Vec<Const> = vec![];
    for ci in 0..n {
        if let Const::Method { code, .. } = &mut q.consts[ci] {
            for ins in code.iter_mut() {
                if let Ins::Goto(a) | Ins::Branch(a) = ins {
                    if let Some(c @ Const::Str(_)) = p.consts.get(*a as usize) {
                        let ni = (n + extra.len()) as u16;
                        extra.push(c.clone());
                        *ins = map_ins(*ins, &|_| ni);
                    }
                }
            }
        }
    }
    q.consts.extend(extra);
    q
}

pub fn reverse_globals(p: &Prog) -> Prog { let mut q = p.clone(); q.globals.reverse(); q }

/// locals are numbered above an unused gap (arguments keep their slots); the frame grows accordingly
pub fn shift_locals(p: &Prog, gap: u16) -> Prog {
    let mut q = p.clone();
    for c in q.consts.iter_mut() {
        if let Const::Method { arity, locals, code, .. } = c {
            if *locals as u32 + gap as u32 > 60_000 { continue }
            let a = *arity as u16;
            for ins in code.iter_mut() {
                match ins { Ins::GetLocal(i) if *i >= a => *i += gap, Ins::SetLocal(i) if *i >= a => *i += gap, _ => {} }
            }
            *locals += gap;
        }
    }
    q
}

const FEENY: [(&str, &str); 13] = [("+", "add"), ("-", "sub"), ("*", "mul"), ("/", "div"), ("%", "mod"), ("<=", "le"), (">=", "ge"), ("<", "lt"), (">", "gt"), ("==", "eq"), ("!=", "neq"), ("&", "and"), ("|", "or")];

/// call the built-in operators by their Feeny names; only for operators that no user method in the
/// program defines under either spelling (otherwise the two spellings are different methods)
pub fn feeny_spellings(p: &Prog) -> Option<Prog> {
    let mut user: HashSet<String> = HashSet::new();
    for c in &p.consts { if let Const::Class(ms) = c { for m in ms { if let Some(Const::Method { name, .. }) = p.consts.get(*m as usize) { if let Some(Const::Str(s)) = p.consts.get(*name as usize) { user.insert(s.clone()); } } } } }
    let mut q = p.clone();
    let n = p.consts.len();
    let mut extra: Vec<Const> = vec![];
    let mut changed = false;
    for ci in 0..n {
        if let Const::Method { code, .. } = &mut q.consts[ci] {
            for ins in code.iter_mut() {
                if let Ins::CallSlot(a, k) = ins {
                    if let Some(Const::Str(s)) = p.consts.get(*a as usize) {
                        if let Some((sym, word)) = FEENY.iter().find(|(sym, _)| sym == s) {
                            if user.contains(*sym) || user.contains(*word) { continue }
                            let ni = (n + extra.len()) as u16;
                            extra.push(Const::Str(word.to_string()));
                            *ins = Ins::CallSlot(ni, *k);
                            changed = true;
                        }
                    }
                }
            }
        }
    }
    q.consts.extend(extra);
    if changed { Some(q) } else { None }
}

// ------------------------------------------------------------------ control-flow / data-flow shapes

fn fresh_label(consts: &mut Vec<Const>, counter: &mut usize) -> u16 {
    *counter += 1;
    consts.push(Const::Str(format!("shape:{}", counter)));
    (consts.len() - 1) as u16
}

/// `goto L; label L` threaded between every two instructions (and before the first)
pub fn thread_jumps(p: &Prog) -> Prog {
    let mut q = p.clone();
    let mut counter = 0usize;
    let n = p.consts.len();
    for ci in 0..n {
        if let Const::Method { code, .. } = &p.consts[ci] {
            let mut out: Vec<Ins> = vec![];
            for ins in code {
                let l = fresh_label(&mut q.consts, &mut counter);
                out.push(Ins::Goto(l)); out.push(Ins::Label(l));
                out.push(*ins);
            }
            if let Const::Method { code: c2, .. } = &mut q.consts[ci] { *c2 = out }
        }
    }
    q
}

/// every literal is stored into a spare local, dropped, and read back
pub fn literals_through_a_local(p: &Prog) -> Prog {
    let mut q = p.clone();
    for c in q.consts.iter_mut() {
        if let Const::Method { arity, locals, code, .. } = c {
            if *locals >= 60_000 { continue }
            let spare = *arity as u16 + *locals;
            let mut out = vec![];
            for ins in code.iter() {
                out.push(*ins);
                if let Ins::Lit(_) = ins { out.push(Ins::SetLocal(spare)); out.push(Ins::Drop); out.push(Ins::GetLocal(spare)) }
            }
            *code = out;
            *locals += 1;
        }
    }
    q
}

fn label_name(p: &Prog, i: u16) -> Option<&str> { p.str_at(i) }

/// compiler shape  `goto C; label B; body; label C; cond; branch B`
/// becomes         `label T; cond; branch B; goto E; label B; body; goto T; label E`   (test first)
pub fn loops_test_first(p: &Prog) -> Option<Prog> {
    let mut q = p.clone();
    let mut counter = 1000usize;
    let mut changed = false;
    let n = p.consts.len();
    for ci in 0..n {
        let code = match &p.consts[ci] { Const::Method { code, .. } => code.clone(), _ => continue };
        let mut cur = code;
        // rewrite innermost-first until no pattern is left (bounded)
        for _ in 0..64 {
            let mut found: Option<(usize, usize, usize)> = None; // (index of goto, index of label C, index of branch)
            'outer: for i in 0..cur.len().saturating_sub(1) {
                if let (Ins::Goto(c), Ins::Label(b)) = (cur[i], cur[i + 1]) {
                    let (cn, bn) = match (label_name(&q, c), label_name(&q, b)) { (Some(x), Some(y)) => (x.to_string(), y.to_string()), _ => continue };
                    // the label C and the closing `branch B`
                    let lc = (i + 2..cur.len()).find(|j| matches!(cur[*j], Ins::Label(x) if label_name(&q, x) == Some(cn.as_str())));
                    if let Some(lc) = lc {
                        let br = (lc + 1..cur.len()).find(|j| matches!(cur[*j], Ins::Branch(x) if label_name(&q, x) == Some(bn.as_str())));
                        if let Some(br) = br {
                            // no other jump may target C or B (the compiler never emits one), and the segment must not contain another unconverted loop head
                            let inner_loop = (i + 2..br).any(|j| j + 1 < cur.len() && matches!((cur[j], cur[j + 1]), (Ins::Goto(_), Ins::Label(_))) && j + 1 != lc);
                            if inner_loop { continue 'outer }
                            found = Some((i, lc, br));
                            break;
                        }
                    }
                }
            }
            let (g, lc, br) = match found { Some(f) => f, None => break };
            let b = if let Ins::Label(b) = cur[g + 1] { b } else { unreachable!() };
            let body: Vec<Ins> = cur[g + 2..lc].to_vec();
            let cond: Vec<Ins> = cur[lc + 1..br].to_vec();
            let t = fresh_label(&mut q.consts, &mut counter);
            let e = fresh_label(&mut q.consts, &mut counter);
            let mut out: Vec<Ins> = cur[..g].to_vec();
            out.push(Ins::Label(t)); out.extend(cond); out.push(Ins::Branch(b)); out.push(Ins::Goto(e));
            out.push(Ins::Label(b)); out.extend(body); out.push(Ins::Goto(t)); out.push(Ins::Label(e));
            out.extend(cur[br + 1..].to_vec());
            cur = out;
            changed = true;
        }
        if let Const::Method { code: c2, .. } = &mut q.consts[ci] { *c2 = cur }
    }
    if changed { Some(q) } else { None }
}

/// compiler shape  `branch T; else; goto E; label T; then; label E`
/// becomes         `branch T; goto F; label T; then; goto E; label F; else; label E`   (then first)
pub fn conditionals_then_first(p: &Prog) -> Option<Prog> {
    let mut q = p.clone();
    let mut counter = 5000usize;
    let mut changed = false;
    let n = p.consts.len();
    for ci in 0..n {
        let code = match &p.consts[ci] { Const::Method { code, .. } => code.clone(), _ => continue };
        let mut cur = code;
        let mut done: Vec<String> = vec![];
        for _ in 0..64 {
            let mut found: Option<(usize, usize, usize, usize)> = None; // branch, goto E, label T, label E
            for i in 0..cur.len() {
                if let Ins::Branch(t) = cur[i] {
                    let tn = match label_name(&q, t) { Some(x) => x.to_string(), None => continue };
                    if done.contains(&tn) { continue }
                    // forward conditional: label T lies ahead and is immediately preceded by `goto E`, label E lies after it
                    let lt = (i + 1..cur.len()).find(|j| matches!(cur[*j], Ins::Label(x) if label_name(&q, x) == Some(tn.as_str())));
                    if let Some(lt) = lt {
                        if lt == 0 { continue }
                        if let Ins::Goto(e) = cur[lt - 1] {
                            let en = match label_name(&q, e) { Some(x) => x.to_string(), None => continue };
                            let le = (lt + 1..cur.len()).find(|j| matches!(cur[*j], Ins::Label(x) if label_name(&q, x) == Some(en.as_str())));
                            if let Some(le) = le { found = Some((i, lt - 1, lt, le)); done.push(tn); break }
                        }
                    }
                }
            }
            let (br, ge, lt, le) = match found { Some(f) => f, None => break };
            let else_part: Vec<Ins> = cur[br + 1..ge].to_vec();
            let then_part: Vec<Ins> = cur[lt + 1..le].to_vec();
            let e = if let Ins::Goto(e) = cur[ge] { e } else { unreachable!() };
            let f = fresh_label(&mut q.consts, &mut counter);
            let mut out: Vec<Ins> = cur[..=br].to_vec();
            out.push(Ins::Goto(f)); out.push(cur[lt]); out.extend(then_part); out.push(Ins::Goto(e));
            out.push(Ins::Label(f)); out.extend(else_part); out.push(cur[le]);
            out.extend(cur[le + 1..].to_vec());
            cur = out;
            changed = true;
        }
        if let Const::Method { code: c2, .. } = &mut q.consts[ci] { *c2 = cur }
    }
    if changed { Some(q) } else { None }
}

pub const KNOBS: [&str; 14] = ["identity", "reverse-pool", "methods-first", "entry-first-with-return", "entry-last-with-return", "pad-pool", "private-constants",
    "labels:L<n>", "labels:reuse-other-names", "labels:non-ascii", "labels:compiler-like", "split-label-constants", "reverse-globals", "shift-locals"];

pub fn apply(p: &Prog, knob: usize) -> Option<Prog> {
    Some(match knob {
        0 => p.clone(), 1 => reverse_pool(p), 2 => methods_first(p), 3 => entry_first(p), 4 => entry_with_return(p), 5 => pad_pool(p), 6 => private_constants(p),
        7 => rename_labels(p, 0), 8 => rename_labels(p, 1), 9 => rename_labels(p, 2), 10 => rename_labels(p, 3), 11 => split_label_constants(p),
        12 => reverse_globals(p), 13 => shift_locals(p, 3),
        14 => return feeny_spellings(p),
        15 => thread_jumps(p), 16 => literals_through_a_local(p),
        17 => return loops_test_first(p),
        _ => return conditionals_then_first(p),
    })
}
pub const N_KNOBS: usize = 19;
pub fn knob_name(k: usize) -> &'static str {
    match k { 0..=13 => KNOBS[k], 14 => "feeny-spellings", 15 => "jumps-threaded-everywhere", 16 => "literals-through-a-local", 17 => "loops-test-first", _ => "conditionals-then-first" }
}
