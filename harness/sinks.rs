//! Fault-injecting `Write` implementations: the environment's answers to each write call are
//! dictated by the explorer (C08).

use std::cell::RefCell;
use std::io::{self, Write};
use std::rc::Rc;

#[derive(Clone, Copy, Debug, PartialEq, Eq)]
pub enum Answer {
    /// accept at most n bytes of this request
    Accept(usize),
    Interrupted,
    Error,
}

#[derive(Default, Debug)]
pub struct SinkState {
    pub received: Vec<u8>,
    pub requests: Vec<usize>,
    /// every call accepts at most this many bytes
    pub limit: Option<usize>,
    /// (call index, answer): deviations from "accept everything"
    pub deviations: Vec<(usize, Answer)>,
    pub errors_returned: usize,
    pub flushes: usize,
}

#[derive(Clone)]
pub struct ScriptedSink(pub Rc<RefCell<SinkState>>);

impl ScriptedSink {
    pub fn new(limit: Option<usize>, deviations: Vec<(usize, Answer)>) -> Self {
        ScriptedSink(Rc::new(RefCell::new(SinkState { limit, deviations, ..Default::default() })))
    }
}

impl Write for ScriptedSink {
    fn write(&mut self, buf: &[u8]) -> io::Result<usize> {
        let mut s = self.0.borrow_mut();
        let call = s.requests.len();
        s.requests.push(buf.len());
        let mut n = buf.len();
        if let Some(l) = s.limit { n = n.min(l) }
        if let Some((_, a)) = s.deviations.iter().find(|(i, _)| *i == call).cloned() {
            match a {
                Answer::Accept(m) => n = n.min(m),
                Answer::Interrupted => { s.errors_returned += 1; return Err(io::Error::new(io::ErrorKind::Interrupted, "injected EINTR")) }
                Answer::Error => { s.errors_returned += 1; return Err(io::Error::new(io::ErrorKind::Other, "injected I/O error")) }
            }
        }
        s.received.extend_from_slice(&buf[..n]);
        Ok(n)
    }
    fn flush(&mut self) -> io::Result<()> { self.0.borrow_mut().flushes += 1; Ok(()) }
}
