//! U-SYN(n): untyped expression trees with every constructor, <= n nodes, no typing and no
//! dominance: programs that fail at run time or at compile time are included.

use super::super::explore::Grammar;
use super::super::syntax::*;

pub const X: usize = 0;

fn p1(mut k: Vec<E>) -> E { k.pop().unwrap() }
fn p2(mut k: Vec<E>) -> (E, E) { let b = k.pop().unwrap(); let a = k.pop().unwrap(); (a, b) }
fn p3(mut k: Vec<E>) -> (E, E, E) { let c = k.pop().unwrap(); let b = k.pop().unwrap(); let a = k.pop().unwrap(); (a, b, c) }

pub fn grammar() -> Grammar<E> {
    let mut g: Grammar<E> = Grammar::new(1);
    // 10 leaves
    g.leaf(X, || int(0)); g.leaf(X, || int(1)); g.leaf(X, || E::Bool(true)); g.leaf(X, || E::Null);
    g.leaf(X, || var("x")); g.leaf(X, || var("y"));
    g.leaf(X, || call("f", vec![])); g.leaf(X, || print("a", vec![]));
    g.leaf(X, || object(None, vec![])); g.leaf(X, || var("this"));
    // 12 unary
    g.prod(X, &[X], |k| let_("x", p1(k)));
    g.prod(X, &[X], |k| let_("z", p1(k)));
    g.prod(X, &[X], |k| set("x", p1(k)));
    g.prod(X, &[X], |k| block(vec![p1(k)]));
    g.prod(X, &[X], |k| call("f", vec![p1(k)]));
    g.prod(X, &[X], |k| fget(p1(k), "a"));
    g.prod(X, &[X], |k| mcall(p1(k), "m", vec![]));
    g.prod(X, &[X], |k| print("~", vec![p1(k)]));
    g.prod(X, &[X], |k| object(Some(p1(k)), vec![]));
    g.prod(X, &[X], |k| object(None, vec![field("a", p1(k))]));
    g.prod(X, &[X], |k| object(None, vec![method("m", &["p"], p1(k))]));
    g.prod(X, &[X], |k| object(None, vec![field("a", int(1)), method("+", &["x"], p1(k))]));
    // 15 binary
    g.prod(X, &[X, X], |k| { let (a, b) = p2(k); block(vec![a, b]) });
    g.prod(X, &[X, X], |k| { let (a, b) = p2(k); if_(a, b, None) });
    g.prod(X, &[X, X], |k| { let (a, b) = p2(k); while_(a, b) });
    g.prod(X, &[X, X], |k| { let (a, b) = p2(k); call("g", vec![a, b]) });
    g.prod(X, &[X, X], |k| { let (a, b) = p2(k); array(a, b) });
    g.prod(X, &[X, X], |k| { let (a, b) = p2(k); idx(a, b) });
    g.prod(X, &[X, X], |k| { let (a, b) = p2(k); fset(a, "a", b) });
    g.prod(X, &[X, X], |k| { let (a, b) = p2(k); mcall(a, "m", vec![b]) });
    g.prod(X, &[X, X], |k| { let (a, b) = p2(k); mcall(a, "get", vec![b]) });
    g.prod(X, &[X, X], |k| { let (a, b) = p2(k); binop("+", a, b) });
    g.prod(X, &[X, X], |k| { let (a, b) = p2(k); binop("<", a, b) });
    g.prod(X, &[X, X], |k| { let (a, b) = p2(k); binop("&", a, b) });
    g.prod(X, &[X, X], |k| { let (a, b) = p2(k); print("~ ~", vec![a, b]) });
    g.prod(X, &[X, X], |k| { let (a, b) = p2(k); object(None, vec![field("a", a), field("b", b)]) });
    g.prod(X, &[X, X], |k| { let (a, b) = p2(k); object(Some(a), vec![field("a", b), method("m", &[], var("this"))]) });
    // 4 ternary
    g.prod(X, &[X, X, X], |k| { let (a, b, c) = p3(k); if_(a, b, Some(c)) });
    g.prod(X, &[X, X, X], |k| { let (a, b, c) = p3(k); idxset(a, b, c) });
    g.prod(X, &[X, X, X], |k| { let (a, b, c) = p3(k); block(vec![a, b, c]) });
    g.prod(X, &[X, X, X], |k| { let (a, b, c) = p3(k); mcall(a, "m", vec![b, c]) });
    g
}

pub const PLACEMENTS: [&str; 8] = ["top-kept", "top-discarded", "block-kept", "block-discarded",
    "function-kept", "function-discarded", "method-kept", "method-discarded"];

/// program placing expression e in frame kind 0..4 (top, top-level block, function body, method body)
pub fn place(e: &E, placement: usize) -> Vec<E> {
    let frame = placement / 2;
    let kept = placement % 2 == 0;
    let defs = vec![fun("f", &["p"], if_(binop("==", var("p"), E::Null), int(0), Some(var("p")))),
                    fun("g", &["p", "q"], block(vec![while_(E::Bool(false), var("p")), binop("+", var("p"), var("q"))]))];
    let mut p = defs;
    match frame {
        0 => {
            if kept { p.push(e.clone()) } else { p.push(e.clone()); p.push(int(9)) }
        }
        1 => {
            let body = if kept { vec![let_("y", int(2)), e.clone()] } else { vec![let_("y", int(2)), e.clone(), int(9)] };
            p.push(block(body));
        }
        2 => {
            let body = if kept { block(vec![let_("y", int(2)), e.clone()]) } else { block(vec![let_("y", int(2)), e.clone(), int(9)]) };
            p.push(fun("body", &["x"], body));
            p.push(call("body", vec![int(1)]));
        }
        _ => {
            let body = if kept { e.clone() } else { block(vec![e.clone(), int(9)]) };
            p.push(let_("o", object(None, vec![field("a", int(1)), method("run", &["x"], body)])));
            p.push(mcall(var("o"), "run", vec![int(1)]));
        }
    }
    p
}
