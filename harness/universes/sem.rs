//! U-SEM(n): kind-directed programs (int / bool / null / array / object / any) over a fixed
//! prelude, 1..k statements each kept or discarded, then an epilogue that prints the state.

use super::super::explore::Grammar;
use super::super::syntax::*;
use super::pair::{epilogue, prelude};

pub const INT: usize = 0;
pub const BOOL: usize = 1;
pub const NUL: usize = 2;
pub const ARR: usize = 3;
pub const OBJ: usize = 4;
pub const ANY: usize = 5;
pub const STMT: usize = 6;
pub const ST: usize = 7;
pub const PROG: usize = 8;

fn p1(mut k: Vec<E>) -> E { k.pop().unwrap() }
fn p2(mut k: Vec<E>) -> (E, E) { let b = k.pop().unwrap(); let a = k.pop().unwrap(); (a, b) }
fn p3(mut k: Vec<E>) -> (E, E, E) { let c = k.pop().unwrap(); let b = k.pop().unwrap(); let a = k.pop().unwrap(); (a, b, c) }

pub fn grammar() -> Grammar<E> {
    let mut g: Grammar<E> = Grammar::new(9);
    // ---- INT
    for i in [0, 1, 7] { g.leaf(INT, move || int(i)) }
    g.leaf(INT, || var("gx"));
    g.leaf(INT, || var("gy"));
    g.leaf(INT, || fget(var("go"), "v"));
    g.leaf(INT, || fget(var("gc"), "w"));
    for op in ["+", "-", "*", "/", "%"] { g.prod(INT, &[INT, INT], move |k| { let (a, b) = p2(k); binop(op, a, b) }) }
    g.prod(INT, &[INT], |k| call("f", vec![p1(k)]));
    g.prod(INT, &[INT, ANY], |k| { let (a, b) = p2(k); call("g", vec![a, b]) });
    g.prod(INT, &[INT], |k| idx(var("ga"), p1(k)));
    g.prod(INT, &[INT], |k| mcall(var("go"), "m", vec![p1(k)]));
    g.prod(INT, &[INT], |k| mcall(var("gc"), "m", vec![p1(k)]));
    g.prod(INT, &[INT], |k| binop("+", var("go"), p1(k)));
    g.prod(INT, &[INT], |k| idx(var("go"), p1(k)));
    g.prod(INT, &[INT], |k| let_("z", p1(k)));
    g.prod(INT, &[INT], |k| set("gx", p1(k)));
    g.prod(INT, &[INT], |k| fset(var("go"), "v", p1(k)));
    g.prod(INT, &[BOOL, INT, INT], |k| { let (c, a, b) = p3(k); if_(c, a, Some(b)) });
    g.prod(INT, &[STMT, INT], |k| { let (a, b) = p2(k); block(vec![a, b]) });
    // ---- BOOL
    g.leaf(BOOL, || E::Bool(true));
    g.leaf(BOOL, || E::Bool(false));
    for op in ["<", "<=", "==", "!=", ">", ">="] { g.prod(BOOL, &[INT, INT], move |k| { let (a, b) = p2(k); binop(op, a, b) }) }
    for op in ["&", "|", "=="] { g.prod(BOOL, &[BOOL, BOOL], move |k| { let (a, b) = p2(k); binop(op, a, b) }) }
    g.prod(BOOL, &[ANY], |k| binop("==", E::Null, p1(k)));
    g.prod(BOOL, &[ANY], |k| binop("!=", int(1), p1(k)));
    // ---- NUL
    g.leaf(NUL, || E::Null);
    g.prod(NUL, &[ANY], |k| print("<~>", vec![p1(k)]));
    g.prod(NUL, &[ANY, ANY], |k| { let (a, b) = p2(k); print("<~,~>", vec![a, b]) });
    g.prod(NUL, &[STMT], |k| while_(E::Bool(false), p1(k)));
    // ---- ARR
    g.leaf(ARR, || var("ga"));
    g.prod(ARR, &[INT, ANY], |k| { let (a, b) = p2(k); array(a, b) });
    // ---- OBJ
    g.leaf(OBJ, || var("go"));
    g.leaf(OBJ, || var("gc"));
    g.prod(OBJ, &[ANY], |k| object(None, vec![field("a", p1(k))]));
    g.prod(OBJ, &[ANY, ANY], |k| { let (a, b) = p2(k); object(Some(a), vec![field("b", b), method("q", &[], fget(var("this"), "b"))]) });
    g.prod(OBJ, &[ANY, INT], |k| { let (a, b) = p2(k); object(Some(a), vec![method("q", &["n"], b)]) });
    // ---- ANY
    for nt in [INT, BOOL, NUL, ARR, OBJ] { g.prod_w(ANY, 0, &[nt], p1) }
    g.prod(ANY, &[BOOL, ANY], |k| { let (c, a) = p2(k); if_(c, a, None) });
    g.prod(ANY, &[OBJ], |k| fget(p1(k), "a"));
    g.prod(ANY, &[OBJ], |k| mcall(p1(k), "q", vec![]));
    g.prod(ANY, &[OBJ, INT], |k| { let (a, b) = p2(k); mcall(a, "q", vec![b]) });
    g.prod(ANY, &[ARR, INT], |k| { let (a, b) = p2(k); idx(a, b) });
    g.prod(ANY, &[ANY], |k| let_("t", p1(k)));
    // ---- STMT
    g.prod_w(STMT, 0, &[ANY], p1);
    g.prod(STMT, &[INT, ANY], |k| { let (i, v) = p2(k); idxset(var("ga"), i, v) });
    g.prod(STMT, &[ANY], |k| fset(var("go"), "v", p1(k)));
    g.prod(STMT, &[INT, ANY], |k| { let (i, v) = p2(k); idxset(var("go"), i, v) });
    g.prod(STMT, &[STMT], |k| while_(binop("<", var("gy"), int(4)), block(vec![set("gy", binop("+", var("gy"), int(1))), p1(k)])));
    // ---- ST: a statement kept (its value printed) or discarded
    g.prod_w(ST, 0, &[STMT], p1);
    g.prod_w(ST, 0, &[ANY], |k| print("=~\\n", vec![p1(k)]));
    // ---- PROG: 1..k statements (carried as a Block)
    g.prod_w(PROG, 0, &[ST], |k| block(vec![p1(k)]));
    g.prod_w(PROG, 0, &[ST, PROG], |k| { let (a, rest) = p2(k); let mut v = vec![a]; if let E::Block(r) = rest { v.extend(r) } block(v) });
    g
}

pub const FRAMES: [&str; 3] = ["top", "function", "method"];

/// the program for a PROG tree in a given frame kind
pub fn program(prog: &E, frame: usize) -> Vec<E> {
    let stmts = if let E::Block(v) = prog { v.clone() } else { vec![prog.clone()] };
    let mut p = prelude();
    match frame {
        0 => p.extend(stmts),
        1 => {
            let mut body = stmts; body.push(var("par"));
            p.push(fun("body", &["par"], block(body)));
            p.push(print("R~\\n", vec![call("body", vec![int(77)])]));
        }
        _ => {
            let mut body = stmts; body.push(var("par"));
            p.push(let_("host", object(None, vec![field("v", int(1)), method("run", &["par"], block(body))])));
            p.push(print("R~\\n", vec![mcall(var("host"), "run", vec![int(78)])]));
        }
    }
    p.extend(epilogue());
    p
}
