//! U-BC(k): abstract bytecode programs written directly with the independent codec B —
//! constant sequences with boundary payloads, method bodies (every opcode with boundary operands,
//! every ordered pair of opcodes, empty), globals/entry variations — and their single-feature
//! neighbours (for C17's injectivity oracle).

use super::super::codec::{Const, Ins, Prog};

/// fixed context every program starts with; references in the varied part point here
/// 0 "main"  1 "x"  2 Int 0  3 Null  4 Bool true  5 Slot(1)  6 "L"  7 "~"  8 Class[5]  9 Method "x"/0/0 [lit 2, return]
pub fn prefix() -> Vec<Const> {
    vec![
        Const::Str("main".into()), Const::Str("x".into()), Const::Int(0), Const::Null, Const::Bool(true),
        Const::Slot(1), Const::Str("L".into()), Const::Str("~".into()), Const::Class(vec![5]),
        Const::Method { name: 1, arity: 0, locals: 0, code: vec![Ins::Lit(2), Ins::Return] },
    ]
}
pub const P_STR: u16 = 1;
pub const P_INT: u16 = 2;
pub const P_SLOT: u16 = 5;
pub const P_LABEL: u16 = 6;
pub const P_FMT: u16 = 7;
pub const P_CLASS: u16 = 8;
pub const P_METHOD: u16 = 9;

pub fn string_menu() -> Vec<String> {
    vec!["", "a", "λ", "~\n", "👍x", "a\"b", "#1: x", "\t", "\\t", "\\", "\\\\", "\"", "\\\"", " ", "a ", " a", "0", "00", "#0",
         "null", "true", "\u{0}", "\\0", "\u{7f}", "é", "\\u{e9}", "e\u{301}", "a,b", "a, b", "::1", "1 2", "slot #1", "class ", "-1",
         "if:end:0", "λ:", "\u{feff}", "\u{2028}", "x\u{0}y", "x y", "𝒳"]
        .into_iter().map(|s| s.to_string()).collect()
}

/// varied constants (all references valid and of the right kind)
pub fn const_menu() -> Vec<Const> {
    let mut v = vec![
        Const::Int(0), Const::Int(-1), Const::Int(i32::MIN), Const::Int(i32::MAX), Const::Int(1), Const::Int(256), Const::Int(65536),
        Const::Null, Const::Bool(true), Const::Bool(false),
        Const::Slot(P_STR), Const::Slot(0), Const::Slot(P_LABEL),
        Const::Class(vec![]), Const::Class(vec![P_SLOT]), Const::Class(vec![P_METHOD]), Const::Class(vec![P_SLOT, P_METHOD]),
        Const::Class(vec![P_METHOD, P_SLOT]), Const::Class(vec![P_SLOT, P_METHOD, P_SLOT]),
        Const::Method { name: P_STR, arity: 0, locals: 0, code: vec![] },
        Const::Method { name: P_STR, arity: 1, locals: 0, code: vec![Ins::GetLocal(0), Ins::Return] },
        Const::Method { name: 0, arity: 255, locals: 65535, code: vec![Ins::Return] },
        Const::Method { name: P_STR, arity: 0, locals: 1, code: vec![Ins::Label(P_LABEL), Ins::Lit(P_INT), Ins::Branch(P_LABEL), Ins::Lit(3), Ins::Return] },
    ];
    for s in ["", "a", "λ", "~\n", "👍x", "a\"b", "#1: x", "\t", "\\t", "\u{0}"] { v.push(Const::Str(s.to_string())) }
    v
}

pub fn boundary_u16() -> Vec<u16> { vec![0, 1, 2, 9, 255, 256, 65535] }
pub fn boundary_u8() -> Vec<u8> { vec![0, 1, 2, 255] }

fn default_ins(op: u8) -> Ins {
    // operands chosen so that the loader accepts the program (labels must name strings)
    match op {
        0x00 => Ins::Label(P_LABEL), 0x01 => Ins::Lit(P_INT), 0x02 => Ins::Print(P_FMT, 1), 0x03 => Ins::Array, 0x04 => Ins::Object(P_CLASS),
        0x05 => Ins::GetSlot(P_STR), 0x06 => Ins::SetSlot(P_STR), 0x07 => Ins::CallSlot(P_STR, 1), 0x08 => Ins::Call(P_STR, 0),
        0x09 => Ins::SetLocal(0), 0x0A => Ins::GetLocal(0), 0x0B => Ins::SetGlobal(P_STR), 0x0C => Ins::GetGlobal(P_STR),
        0x0D => Ins::Branch(P_LABEL), 0x0E => Ins::Goto(P_LABEL), 0x0F => Ins::Return, _ => Ins::Drop,
    }
}

/// method bodies: empty; every single opcode with every boundary operand combination (labels keep
/// a string operand); every ordered pair of opcodes
pub fn code_menu() -> Vec<Vec<Ins>> {
    let mut v: Vec<Vec<Ins>> = vec![vec![]];
    for op in 0x00u8..=0x10 {
        match Ins::shape_of(op).unwrap() {
            0 => v.push(vec![default_ins(op)]),
            1 => for a in boundary_u16() {
                if op == 0x00 && !matches!(a, 0 | 1) { continue } // label operands must name a string constant (0 or 1 in the prefix)
                v.push(vec![Ins::from_parts(op, a, 0).unwrap()]);
            },
            _ => for a in boundary_u16() { for b in boundary_u8() { v.push(vec![Ins::from_parts(op, a, b).unwrap()]) } },
        }
    }
    for a in 0x00u8..=0x10 { for b in 0x00u8..=0x10 { v.push(vec![default_ins(a), default_ins(b)]) } }
    v
}

fn entry_method() -> Const { Const::Method { name: 0, arity: 0, locals: 0, code: vec![Ins::Lit(P_INT), Ins::Print(P_FMT, 1), Ins::Return] } }

pub fn assemble(varied: Vec<Const>, globals: Vec<u16>, entry: Option<u16>) -> Prog {
    let mut consts = prefix();
    consts.extend(varied);
    consts.push(entry_method());
    let e = entry.unwrap_or((consts.len() - 1) as u16);
    Prog { consts, globals, entry: e }
}

/// number of programs of family A (constant sequences of length <= k)
pub fn count_sequences(k: usize) -> u64 {
    let m = const_menu().len() as u64;
    (0..=k).map(|l| m.pow(l as u32)).sum()
}

/// the i-th constant sequence (shorter sequences first)
pub fn sequence(mut i: u64, menu: &[Const]) -> Vec<Const> {
    let m = menu.len() as u64;
    let mut len = 0u32;
    loop {
        let c = m.pow(len);
        if i < c { break }
        i -= c;
        len += 1;
    }
    let mut v = vec![];
    for _ in 0..len { v.push(menu[(i % m) as usize].clone()); i /= m; }
    v
}

/// family B: one method with each body of the code menu x arity/locals boundaries
pub fn method_programs() -> Vec<Prog> {
    let mut out = vec![];
    for code in code_menu() {
        for (arity, locals) in [(0u8, 0u16), (1, 0), (0, 1), (255, 65535), (2, 3)] {
            out.push(assemble(vec![Const::Method { name: P_STR, arity, locals, code: code.clone() }], vec![P_SLOT], None));
        }
    }
    out
}

/// family C: globals / entry variations over a fixed constant list
pub fn layout_programs() -> Vec<Prog> {
    let mut out = vec![];
    let globals: Vec<Vec<u16>> = vec![vec![], vec![P_SLOT], vec![P_METHOD], vec![P_SLOT, P_METHOD], vec![P_METHOD, P_SLOT],
        vec![P_SLOT, P_METHOD, 10], vec![10], vec![10, P_SLOT]];
    for g in globals {
        for entry in [None, Some(P_METHOD), Some(11u16)] {
            out.push(assemble(vec![Const::Slot(0), Const::Method { name: 0, arity: 0, locals: 2, code: vec![Ins::Lit(3), Ins::Return] }], g.clone(), entry));
        }
    }
    // many methods, many constants
    let many: Vec<Const> = (0..40).map(|i| Const::Method { name: P_STR, arity: (i % 3) as u8, locals: i as u16, code: vec![Ins::Lit(P_INT); i % 5] }).collect();
    out.push(assemble(many, vec![P_SLOT], None));
    let ints: Vec<Const> = (0..300).map(|i| Const::Int(i * 7919 - 1000)).collect();
    out.push(assemble(ints, vec![], None));
    let long = "é".repeat(5000);
    out.push(assemble(vec![Const::Str(long), Const::Str("x".repeat(70000))], vec![], None));
    // long strings whose multi-byte characters sit at every alignment (a block-wise decoder must not split them)
    for prefix in ["", "a", "ab", "abc"] {
        // each string is longer than 16 KiB, so every power-of-two block size up to 8 KiB has boundaries inside it
        out.push(assemble(vec![Const::Str(format!("{}{}", prefix, "é".repeat(9000))), Const::Str(format!("{}{}", prefix, "€".repeat(6000))),
                               Const::Str(format!("{}{}", prefix, "𝒳".repeat(4500))), Const::Str(format!("{}{}", prefix, "aé€𝒳".repeat(1900)))], vec![P_SLOT], None));
    }
    out
}

#[derive(Clone, Debug)]
pub struct Edit { pub what: String, pub numeric: Option<(i64, i64)> }

/// every program that differs from p in exactly one feature
pub fn neighbours(p: &Prog) -> Vec<(Prog, Edit)> {
    let mut out: Vec<(Prog, Edit)> = vec![];
    let strings = string_menu();
    let n = p.consts.len();
    for ci in 0..n {
        let mut with = |c: Const, what: String, numeric: Option<(i64, i64)>| {
            let mut q = p.clone();
            if q.consts[ci] != c { q.consts[ci] = c; out.push((q, Edit { what, numeric })) }
        };
        match &p.consts[ci] {
            Const::Int(i) => {
                for j in [i.wrapping_add(1), i.wrapping_sub(1), -*i, 0, 10, 16, 255, 256, i32::MIN, i32::MAX] {
                    with(Const::Int(j), format!("constant {} int payload {} -> {}", ci, i, j), Some((*i as i64, j as i64)));
                }
                with(Const::Null, format!("constant {} int -> null", ci), None);
                with(Const::Bool(*i != 0), format!("constant {} int -> bool", ci), None);
                with(Const::Str(i.to_string()), format!("constant {} int -> string", ci), None);
                with(Const::Slot(*i as u16), format!("constant {} int -> slot", ci), None);
            }
            Const::Null => { with(Const::Int(0), format!("constant {} null -> int", ci), None); with(Const::Str("null".into()), format!("constant {} null -> string", ci), None); with(Const::Bool(false), format!("constant {} null -> bool", ci), None) }
            Const::Bool(x) => { with(Const::Bool(!x), format!("constant {} bool flipped", ci), None); with(Const::Int(*x as i32), format!("constant {} bool -> int", ci), None); with(Const::Str(x.to_string()), format!("constant {} bool -> string", ci), None) }
            Const::Str(s) => {
                // strings that name labels must stay strings; payload edits are fine
                for t in &strings { with(Const::Str(t.clone()), format!("constant {} string {:?} -> {:?}", ci, s, t), None) }
                let mut t = s.clone(); t.push(' '); with(Const::Str(t), format!("constant {} string + trailing blank", ci), None);
                let mut t = s.clone(); t.push('"'); with(Const::Str(t), format!("constant {} string + quote", ci), None);
            }
            Const::Slot(i) => {
                for j in [i.wrapping_add(1), i.wrapping_sub(1), 0, 10, 255, 256, 65535] { with(Const::Slot(j), format!("constant {} slot name {} -> {}", ci, i, j), Some((*i as i64, j as i64))) }
                with(Const::Class(vec![*i]), format!("constant {} slot -> class", ci), None);
                with(Const::Int(*i as i32), format!("constant {} slot -> int", ci), None);
            }
            Const::Class(ms) => {
                for mi in 0..ms.len() {
                    for j in [ms[mi].wrapping_add(1), ms[mi].wrapping_sub(1), 0, 10, 65535] {
                        let mut m2 = ms.clone(); m2[mi] = j;
                        with(Const::Class(m2), format!("constant {} class member {} -> {}", ci, ms[mi], j), Some((ms[mi] as i64, j as i64)));
                    }
                    let mut m2 = ms.clone(); m2.remove(mi);
                    with(Const::Class(m2), format!("constant {} class member removed", ci), None);
                }
                let mut m2 = ms.clone(); m2.push(0); with(Const::Class(m2), format!("constant {} class member added", ci), None);
                if ms.len() >= 2 { let mut m2 = ms.clone(); m2.swap(0, 1); with(Const::Class(m2), format!("constant {} class members swapped", ci), None) }
                if ms.len() == 1 { with(Const::Slot(ms[0]), format!("constant {} class -> slot", ci), None) }
            }
            Const::Method { name, arity, locals, code } => {
                for j in [name.wrapping_add(1), name.wrapping_sub(1), 10, 255, 65535] {
                    with(Const::Method { name: j, arity: *arity, locals: *locals, code: code.clone() }, format!("constant {} method name {} -> {}", ci, name, j), Some((*name as i64, j as i64)));
                }
                for j in [arity.wrapping_add(1), arity.wrapping_sub(1), 10, 16, 255] {
                    with(Const::Method { name: *name, arity: j, locals: *locals, code: code.clone() }, format!("constant {} method arity {} -> {}", ci, arity, j), Some((*arity as i64, j as i64)));
                }
                for j in [locals.wrapping_add(1), locals.wrapping_sub(1), 10, 16, 256, 65535] {
                    with(Const::Method { name: *name, arity: *arity, locals: j, code: code.clone() }, format!("constant {} method locals {} -> {}", ci, locals, j), Some((*locals as i64, j as i64)));
                }
                // swap arity and locals values (catches a listing that prints them under the wrong label)
                if *arity as u16 != *locals && *locals <= 255 {
                    with(Const::Method { name: *name, arity: *locals as u8, locals: *arity as u16, code: code.clone() }, format!("constant {} method arity/locals exchanged", ci), None);
                }
                for pc in 0..code.len() {
                    let ins = code[pc];
                    let (a, bb) = ins.operands();
                    let shape = Ins::shape_of(ins.opcode()).unwrap();
                    // opcode -> every other opcode of the same operand shape (labels only where the loader accepts them)
                    for op in 0x00u8..=0x10 {
                        if op == ins.opcode() || Ins::shape_of(op) != Some(shape) { continue }
                        if op == 0x00 && !matches!(p.consts.get(a.unwrap_or(0) as usize), Some(Const::Str(_))) { continue }
                        let mut c2 = code.clone(); c2[pc] = Ins::from_parts(op, a.unwrap_or(0), bb.unwrap_or(0)).unwrap();
                        with(Const::Method { name: *name, arity: *arity, locals: *locals, code: c2 }, format!("constant {} pc {} opcode {:#x} -> {:#x}", ci, pc, ins.opcode(), op), None);
                    }
                    if let Some(a) = a {
                        for j in [a.wrapping_add(1), a.wrapping_sub(1), 10, 16, 255, 256, 65535] {
                            if ins.opcode() == 0x00 && !matches!(p.consts.get(j as usize), Some(Const::Str(_))) { continue }
                            let mut c2 = code.clone(); c2[pc] = Ins::from_parts(ins.opcode(), j, bb.unwrap_or(0)).unwrap();
                            with(Const::Method { name: *name, arity: *arity, locals: *locals, code: c2 }, format!("constant {} pc {} operand {} -> {}", ci, pc, a, j), Some((a as i64, j as i64)));
                        }
                    }
                    if let Some(bv) = bb {
                        for j in [bv.wrapping_add(1), bv.wrapping_sub(1), 10, 16, 255] {
                            let mut c2 = code.clone(); c2[pc] = Ins::from_parts(ins.opcode(), a.unwrap_or(0), j).unwrap();
                            with(Const::Method { name: *name, arity: *arity, locals: *locals, code: c2 }, format!("constant {} pc {} argument count {} -> {}", ci, pc, bv, j), Some((bv as i64, j as i64)));
                        }
                    }
                    // instruction removed / duplicated / swapped with its successor
                    let mut c2 = code.clone(); c2.remove(pc);
                    with(Const::Method { name: *name, arity: *arity, locals: *locals, code: c2 }, format!("constant {} pc {} instruction removed", ci, pc), None);
                    let mut c2 = code.clone(); c2.insert(pc, ins);
                    with(Const::Method { name: *name, arity: *arity, locals: *locals, code: c2 }, format!("constant {} pc {} instruction duplicated", ci, pc), None);
                    if pc + 1 < code.len() && code[pc] != code[pc + 1] {
                        let mut c2 = code.clone(); c2.swap(pc, pc + 1);
                        with(Const::Method { name: *name, arity: *arity, locals: *locals, code: c2 }, format!("constant {} pc {} swapped with successor", ci, pc), None);
                    }
                }
                // one instruction moved to the next method constant (same total code, different split)
            }
        }
    }
    // swap two adjacent constants
    for ci in 0..n.saturating_sub(1) {
        if p.consts[ci] != p.consts[ci + 1] {
            let mut q = p.clone(); q.consts.swap(ci, ci + 1);
            // keep labels loadable: only when no label instruction names either index
            out.push((q, Edit { what: format!("constants {} and {} swapped", ci, ci + 1), numeric: None }));
        }
    }
    // move the last instruction of a method to the front of the next method constant
    let method_idx: Vec<usize> = (0..n).filter(|i| matches!(p.consts[*i], Const::Method { .. })).collect();
    for w in method_idx.windows(2) {
        let (a, bq) = (w[0], w[1]);
        let mut q = p.clone();
        let moved = if let Const::Method { code, .. } = &mut q.consts[a] { code.pop() } else { None };
        if let Some(ins) = moved {
            if let Const::Method { code, .. } = &mut q.consts[bq] { code.insert(0, ins) }
            out.push((q, Edit { what: format!("last instruction of method {} moved to method {}", a, bq), numeric: None }));
        }
    }
    // globals
    { let mut q = p.clone(); q.globals.push(P_SLOT); out.push((q, Edit { what: "global added".into(), numeric: None })); }
    for gi in 0..p.globals.len() {
        let mut q = p.clone(); q.globals.remove(gi); out.push((q, Edit { what: format!("global {} removed", gi), numeric: None }));
        for j in [p.globals[gi].wrapping_add(1), p.globals[gi].wrapping_sub(1), 10, 255, 65535] {
            if j == p.globals[gi] { continue }
            let mut q = p.clone(); q.globals[gi] = j;
            out.push((q, Edit { what: format!("global {} -> {}", p.globals[gi], j), numeric: Some((p.globals[gi] as i64, j as i64)) }));
        }
    }
    if p.globals.len() >= 2 && p.globals[0] != p.globals[1] { let mut q = p.clone(); q.globals.swap(0, 1); out.push((q, Edit { what: "globals swapped".into(), numeric: None })) }
    // entry
    for j in [p.entry.wrapping_add(1), p.entry.wrapping_sub(1), 0, 10, 255, 65535] {
        if j == p.entry { continue }
        let mut q = p.clone(); q.entry = j;
        out.push((q, Edit { what: format!("entry {} -> {}", p.entry, j), numeric: Some((p.entry as i64, j as i64)) }));
    }
    out
}

/// does the repository's loader have what it needs? (label instructions must name string constants)
pub fn loadable(p: &Prog) -> bool {
    for c in &p.consts {
        if let Const::Method { code, .. } = c {
            for i in code { if let Ins::Label(n) = i { if !matches!(p.consts.get(*n as usize), Some(Const::Str(_))) { return false } } }
        }
    }
    true
}
