//! U-SCALE: programs that cross the numeric boundaries of the bytecode format in every countable
//! dimension (u8 arities, u16 indices, 255/256/257 of everything, a few thousand of some).
//! Small-scope universes never reach these; one program per (dimension, n) does.

use super::super::syntax::*;

pub fn sizes(thorough: bool) -> Vec<usize> { if thorough { vec![254, 255, 256, 257, 300, 1000] } else { vec![255, 256, 257, 300] } }

/// programs in the upper half of the 16-bit ranges of the format: a call frame of 60 001 slots (1
/// parameter + 60 000 locals; every local assigned / all of them in a branch that is not taken) and a
/// constant pool whose indices exceed 32767 (sign) with the highest ones in use. Deliberately NOT at
/// the exact maximum: where exactly an implementation stops accepting programs is its own business (a
/// frame one slot larger than needed is a legitimate choice - benign/extra-unused-local); the exact
/// limits are exercised by C11, which only demands the same answer in every run and build profile.
pub fn programs_u16() -> Vec<(String, Vec<E>)> {
    let mut out: Vec<(String, Vec<E>)> = vec![];
    let n = 60_000usize;
    let lets = |last: E| { let mut b: Vec<E> = (0..n).map(|i| let_(&format!("v{}", i), int((i % 10) as i32))).collect(); b.push(last); block(b) };
    out.push(("frame of 60001 slots, every local assigned".to_string(), vec![print("before\\n", vec![]),
        fun("wide", &["p"], lets(binop("+", binop("+", var("p"), var("v0")), var(&format!("v{}", n - 1))))),
        print("~\\n", vec![call("wide", vec![int(7)])]), print("after\\n", vec![])]));
    out.push(("frame of 60001 slots, locals in a branch not taken".to_string(), vec![print("before\\n", vec![]),
        fun("wide", &["p"], if_(E::Bool(false), lets(E::Null), Some(int(7)))),
        print("~\\n", vec![call("wide", vec![int(1)])]), print("after\\n", vec![])]));
    let mut p: Vec<E> = vec![let_("t", int(0))];
    for i in 0..40_000 { p.push(set("t", int(100_000 + i))) }
    p.push(fun("late", &["a"], binop("+", var("a"), int(-5))));
    p.push(let_("last", object(None, vec![field("fld", int(-6)), method("get", &["i"], binop("*", var("i"), int(-7)))])));
    p.push(print("t=~ late=~ fld=~ get=~\\n", vec![var("t"), call("late", vec![int(1)]), fget(var("last"), "fld"), idx(var("last"), int(3))]));
    out.push(("constant pool indices beyond 32767 in use".to_string(), p));
    out
}

/// (name, program)
pub fn programs(thorough: bool) -> Vec<(String, Vec<E>)> {
    let mut out: Vec<(String, Vec<E>)> = vec![];
    for n in sizes(thorough) {
        let ni = n as i32;
        // n globals, read the first, the middle and the last
        let mut p: Vec<E> = (0..n).map(|i| let_(&format!("g{}", i), int(i as i32))).collect();
        p.push(print("~ ~ ~\\n", vec![var("g0"), var(&format!("g{}", n / 2)), var(&format!("g{}", n - 1))]));
        out.push((format!("{} globals", n), p));
        // n functions, each called once, result summed
        let mut p: Vec<E> = (0..n).map(|i| fun(&format!("f{}", i), &["a"], binop("+", var("a"), int(i as i32)))).collect();
        p.push(let_("s", int(0)));
        for i in [0, 1, n / 2, n - 2, n - 1] { p.push(set("s", binop("+", var("s"), call(&format!("f{}", i), vec![int(1)])))) }
        p.push(print("~\\n", vec![var("s")]));
        out.push((format!("{} functions", n), p));
        // an object with n fields and n methods
        let mut ms: Vec<Member> = (0..n).map(|i| field(&format!("a{}", i), int(i as i32))).collect();
        ms.extend((0..n).map(|i| method(&format!("m{}", i), &[], fget(var("this"), &format!("a{}", i)))));
        out.push((format!("object with {} fields and {} methods", n, n), vec![let_("o", object(None, ms)),
            print("~ ~ ~ ~\\n", vec![fget(var("o"), "a0"), fget(var("o"), &format!("a{}", n - 1)), mcall(var("o"), "m0", vec![]), mcall(var("o"), &format!("m{}", n - 1), vec![])]),
            fset(var("o"), &format!("a{}", n - 1), int(-1)), print("~\\n", vec![mcall(var("o"), &format!("m{}", n - 1), vec![])])]));
        // n conditionals and n loops in a row inside one function (2n label groups in one method)
        let mut body: Vec<E> = vec![let_("c", int(0))];
        for i in 0..n {
            body.push(if_(binop("==", binop("%", int(i as i32), int(2)), int(0)), set("c", binop("+", var("c"), int(1))), Some(set("c", binop("+", var("c"), int(1000))))));
            body.push(while_(binop("<", var("c"), int(0)), set("c", int(0))));
        }
        body.push(var("c"));
        out.push((format!("{} conditionals and loops in one function", n), vec![fun("run", &[], block(body)), print("~\\n", vec![call("run", vec![])])]));
        // n locals in nested blocks of one function
        let mut inner: E = var(&format!("v{}", n - 1));
        for i in (0..n).rev() { inner = block(vec![let_(&format!("v{}", i), int(i as i32)), inner]) }
        out.push((format!("{} locals in {} nested blocks", n, n), vec![fun("deep", &[], inner), print("~\\n", vec![call("deep", vec![])])]));
        // n distinct integer constants and n distinct strings (constant pool indices beyond one byte)
        let mut p: Vec<E> = vec![let_("t", int(0))];
        for i in 0..n { p.push(set("t", binop("+", var("t"), int(1000 + i as i32)))) }
        for i in [0, n / 2, n - 1] { p.push(print(&format!("s{} ~\\n", i), vec![var("t")])) }
        for i in 0..n { p.push(print(&format!("[{}]", i), vec![])) }
        out.push((format!("{} distinct constants and strings", n), p));
        // an array of n elements with a compound initializer, element n-1 read back; an n-element chain of parents
        out.push((format!("array of {} computed elements", n), vec![let_("k", int(0)), let_("a", array(int(ni), block(vec![set("k", binop("+", var("k"), int(1))), var("k")]))),
            print("~ ~ ~\\n", vec![idx(var("a"), int(0)), idx(var("a"), int(ni - 1)), var("k")])]));
        // call with as many arguments as the format allows (n <= 255 is valid; more is refused - C11 compares the refusals)
        if n <= 255 {
            let params: Vec<String> = (0..n).map(|i| format!("p{}", i)).collect();
            let pr: Vec<&str> = params.iter().map(|s| s.as_str()).collect();
            out.push((format!("function with {} parameters", n), vec![fun("many", &pr, binop("+", var("p0"), var(&format!("p{}", n - 1)))),
                print("~\\n", vec![call("many", (0..n).map(|i| int(i as i32)).collect())])]));
            if n <= 254 {
                out.push((format!("method with {} parameters", n), vec![let_("o", object(None, vec![method("many", &pr, binop("+", var("p0"), var(&format!("p{}", n - 1))))])),
                    print("~\\n", vec![mcall(var("o"), "many", (0..n).map(|i| int(i as i32)).collect())])]));
            }
            out.push((format!("print with {} arguments", n), vec![print(&vec!["~"; n].join(" "), (0..n).map(|i| int((i % 10) as i32)).collect())]));
        }
    }
    out
}
