//! U-PAIR(d): every construct in every operand slot of every construct (templates with one
//! hole, nested d-1 times, closed by a filler), each kept and discarded, in four frame kinds.

use super::super::syntax::*;

pub fn hole() -> E { var("@HOLE") }
pub fn tr(tag: &str, v: E) -> E { block(vec![print(tag, vec![]), v]) }

pub fn prelude() -> Vec<E> {
    vec![
        let_("gx", int(1)), let_("gy", int(2)), let_("ga", array(int(3), int(0))),
        let_("go", object(None, vec![
            field("v", int(10)),
            method("m", &["k"], binop("+", fget(var("this"), "v"), var("k"))),
            method("+", &["k"], binop("*", fget(var("this"), "v"), var("k"))),
            method("get", &["i"], binop("+", var("i"), int(100))),
            method("set", &["i", "w"], fset(var("this"), "v", var("w"))),
        ])),
        let_("gc", object(Some(var("go")), vec![field("w", int(5))])),
        // three levels with different field names: paths with two and three intermediate fields
        let_("gn", object(None, vec![field("p", object(None, vec![field("q", object(None, vec![
            field("v", int(20)),
            method("m", &["k"], binop("-", fget(var("this"), "v"), var("k"))),
            method("+", &["k"], binop("+", fget(var("this"), "v"), var("k"))),
        ])), field("v", int(30))])), field("v", int(40))])),
        fun("f", &["p"], binop("+", var("p"), int(1))),
        fun("g", &["p", "q"], block(vec![print("g", vec![]), var("p")])),
    ]
}

pub fn epilogue() -> Vec<E> {
    vec![print("|~ ~ ~ ~ ~ ~\\n", vec![var("gx"), var("gy"), var("ga"), var("go"), var("gc"), var("gn")])]
}

pub fn templates() -> Vec<E> {
    let h = hole;
    let t = || E::Bool(true);
    let f = || E::Bool(false);
    vec![
        h(), let_("z", h()), set("gx", h()), block(vec![h(), int(5)]), block(vec![int(5), h()]), block(vec![h()]),
        if_(h(), int(1), Some(int(2))), if_(t(), h(), Some(int(2))), if_(f(), int(1), Some(h())), if_(t(), h(), None), if_(f(), h(), None),
        while_(f(), h()),
        while_(binop("<", var("gy"), int(4)), block(vec![set("gy", binop("+", var("gy"), int(1))), h()])),
        call("f", vec![h()]), call("g", vec![h(), int(7)]), call("g", vec![int(7), h()]),
        array(h(), int(0)), array(int(2), h()), array(h(), tr("i", int(1))), array(int(0), h()),
        idx(var("ga"), h()), idx(h(), int(0)), idxset(var("ga"), h(), int(5)), idxset(var("ga"), int(1), h()), idxset(h(), int(1), int(5)),
        object(Some(h()), vec![]), object(None, vec![field("a", h())]),
        object(Some(h()), vec![field("a", int(1)), field("b", h())]),
        object(None, vec![field("a", int(1)), method("q", &[], h())]),
        fget(h(), "v"), fset(var("go"), "v", h()), fset(h(), "v", int(3)),
        mcall(h(), "m", vec![int(1)]), mcall(var("go"), "m", vec![h()]), mcall(var("gc"), "m", vec![h()]), mcall(h(), "get", vec![int(1)]),
        binop("+", h(), int(1)), binop("+", int(1), h()), binop("==", h(), int(1)), binop("==", E::Null, h()),
        binop("&", h(), t()), binop("|", f(), h()), binop("<", h(), int(3)), binop("-", int(3), h()),
        binop("/", int(7), h()), binop("%", h(), int(3)),
        print("~", vec![h()]), print("~ ~", vec![int(1), h()]), print("~ ~", vec![h(), tr("t", int(2))]),
        // additions over the design spike
        mcall(var("go"), "+", vec![h()]), mcall(h(), "==", vec![E::Null]),
        fget(fget(object(None, vec![field("v", h())]), "v"), "v"),
        array(int(2), fget(h(), "v")),
        call("g", vec![h(), h()]),
        binop("|", t(), h()), binop("&", f(), h()), binop("*", int(0), h()), binop("+", h(), int(0)),
        block(vec![set("gx", int(2)), array(var("gx"), block(vec![set("gx", binop("+", var("gx"), int(1))), h()]))]),
        array(int(2), idx(var("go"), h())), array(int(2), binop("+", var("go"), h())),
        // receiver paths with two intermediate fields of different names
        mcall(fget(fget(var("gn"), "p"), "q"), "m", vec![h()]), fset(fget(fget(var("gn"), "p"), "q"), "v", h()),
        mcall(fget(fget(var("gn"), "p"), "q"), "+", vec![h()]), binop("+", fget(fget(var("gn"), "p"), "q"), h()),
    ]
}

pub fn fillers() -> Vec<E> {
    let t = || E::Bool(true);
    let f = || E::Bool(false);
    vec![
        int(0), int(2), int(-1), t(), f(), E::Null, var("gx"), var("ga"), var("go"), var("gc"),
        let_("w", int(3)), set("gx", int(4)), tr("s", int(2)), tr("b", t()), block(vec![let_("gx", int(8)), var("gx")]),
        if_(t(), int(1), Some(int(0))), if_(f(), int(1), None), while_(f(), int(1)),
        call("f", vec![int(1)]), call("g", vec![int(1), int(2)]), array(int(2), int(0)), array(int(2), tr("e", int(0))),
        idx(var("ga"), int(0)), idxset(var("ga"), int(0), int(9)), object(None, vec![field("v", int(1))]),
        object(Some(var("ga")), vec![]), object(Some(int(6)), vec![]),
        fget(var("go"), "v"), fget(tr("o", var("go")), "v"), fset(var("go"), "v", int(2)),
        mcall(var("go"), "m", vec![int(1)]), mcall(var("gc"), "m", vec![int(1)]),
        binop("+", var("go"), int(2)), idx(var("go"), int(5)), idxset(var("go"), int(1), int(2)), idx(var("gc"), int(5)),
        binop("+", int(1), int(1)), binop("<", int(1), int(2)), binop("|", t(), f()), binop("*", int(65536), int(65536)),
        print("p", vec![]), print("~", vec![int(1)]),
        // faults
        var("nosuch"), call("nosuch", vec![]), fget(var("go"), "nosuch"), mcall(var("go"), "nosuch", vec![]), binop("/", int(1), int(0)),
        call("f", vec![]), print("~", vec![]), print("q", vec![int(1)]), idx(var("ga"), int(3)), binop("+", int(1), E::Null), array(int(-1), int(0)),
        // additions over the design spike
        binop("+", int(2147483647), int(1)), binop("%", int(-2147483648), int(-1)),
        print("a~b~c", vec![int(1)]), set("nosuch", int(1)), mcall(var("ga"), "get", vec![int(1)]),
    ]
}

pub fn fill(t: &E, h: &E) -> E {
    use E::*;
    let f = |x: &E| fill(x, h);
    let fb = |x: &Box<E>| Box::new(fill(x, h));
    match t {
        Var(n) if n == "@HOLE" => h.clone(),
        Int(_) | Bool(_) | Null | Var(_) => t.clone(),
        Let(n, v) => Let(n.clone(), fb(v)),
        Set(n, v) => Set(n.clone(), fb(v)),
        Block(v) => Block(v.iter().map(f).collect()),
        If(c, a, b) => If(fb(c), fb(a), b.as_ref().map(|x| fb(x))),
        While(c, body) => While(fb(c), fb(body)),
        Call(n, a) => Call(n.clone(), a.iter().map(f).collect()),
        Array(n, v) => Array(fb(n), fb(v)),
        Idx(a, i) => Idx(fb(a), fb(i)),
        IdxSet(a, i, v) => IdxSet(fb(a), fb(i), fb(v)),
        Object(p, ms) => Object(p.as_ref().map(|x| fb(x)), ms.iter().map(|m| match m {
            Member::Field(n, v) => Member::Field(n.clone(), fill(v, h)),
            Member::Method(n, ps, body) => Member::Method(n.clone(), ps.clone(), fill(body, h)),
        }).collect()),
        FGet(o, n) => FGet(fb(o), n.clone()),
        FSet(o, n, v) => FSet(fb(o), n.clone(), fb(v)),
        MCall(o, n, a) => MCall(fb(o), n.clone(), a.iter().map(f).collect()),
        BinOp(op, l, r) => BinOp(op.clone(), fb(l), fb(r)),
        Print(s, a) => Print(s.clone(), a.iter().map(f).collect()),
        Fun(n, ps, body) => Fun(n.clone(), ps.clone(), fb(body)),
    }
}

pub const FRAMES: [&str; 4] = ["top", "block", "function", "method"];

/// wrap statement `st` in frame kind `frame` (0..4), kept (printed) or discarded
pub fn in_frame(e: &E, kept: bool, frame: usize) -> Vec<E> {
    let st = if kept { print("=~\\n", vec![e.clone()]) } else { e.clone() };
    let mut p = prelude();
    match frame {
        0 => p.push(st),
        1 => p.push(block(vec![let_("loc", int(3)), st, print("L~\\n", vec![var("loc")])])),
        2 => {
            p.push(fun("body", &["par"], block(vec![let_("loc", int(3)), st, print("L~ ~\\n", vec![var("loc"), var("par")]), var("par")])));
            p.push(print("R~\\n", vec![call("body", vec![int(77)])]));
        }
        _ => {
            p.push(let_("host", object(None, vec![field("v", int(1)), method("run", &["par"], block(vec![st, var("par")]))])));
            p.push(print("R~\\n", vec![mcall(var("host"), "run", vec![int(78)])]));
        }
    }
    p.extend(epilogue());
    p
}
