pub mod pair;
pub mod sem;
