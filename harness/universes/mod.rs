pub mod pair;
pub mod sem;
pub mod syn;
pub mod bc;
pub mod scale;
