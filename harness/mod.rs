//! Verification harness for kondziu/FML, compiled into the `fml` binary under
//! `--cfg kondziu_fml_verif` (see /verif/DESIGN.md). Entry: `fml __verif <command> ...`.
#![allow(dead_code, unused_variables, unused_imports, unused_mut, unused_assignments)]

pub mod syntax;
pub mod refsem;
pub mod pipeline;
pub mod explore;
pub mod cli;
pub mod codec;
pub mod bcverify;
pub mod sinks;
pub mod refvm;
pub mod layout;
pub mod universes;
pub mod props;

use explore::{Ctx, Tier};
use std::path::PathBuf;

pub fn intercept() -> bool {
    let args: Vec<String> = std::env::args().collect();
    if args.len() >= 2 && args[1] == "__verif" {
        // The harness runs on a thread with a 1 GiB stack: in-process exploration must not depend on how
        // close a deeply nested (but finite) program comes to the 8 MiB main-thread stack of this machine -
        // a debug-build worker died of that, irreproducibly, on a U-SCALE program nested 1000 deep. What the
        // real `fml` process does with deep inputs is C10's business and is measured there with real processes.
        let rest: Vec<String> = args[2..].to_vec();
        let code = std::thread::Builder::new().name("verif".into()).stack_size(1 << 30)
            .spawn(move || run(&rest)).expect("cannot start the harness thread").join().unwrap_or(101);
        std::process::exit(code);
    }
    false
}

fn opt<'a>(args: &'a [String], name: &str) -> Option<&'a str> {
    args.iter().position(|a| a == name).and_then(|i| args.get(i + 1)).map(|s| s.as_str())
}

fn run(args: &[String]) -> i32 {
    if args.is_empty() { eprintln!("usage: fml __verif <explore|selfcheck|merge-distinct|ref> ..."); return 2 }
    match args[0].as_str() {
        "explore" => {
            let prop = match args.get(1) { Some(p) => p.clone(), None => { eprintln!("explore <property>"); return 2 } };
            let tier = if opt(args, "--tier") == Some("thorough") { Tier::Thorough } else { Tier::Quick };
            let (shard, n) = match opt(args, "--shard") {
                Some(s) => { let mut it = s.split('/'); (it.next().unwrap().parse().unwrap(), it.next().unwrap().parse().unwrap()) }
                None => (0u64, 1u64),
            };
            let seed: u64 = opt(args, "--seed").map_or(0, |s| s.parse().unwrap_or(0));
            let out = PathBuf::from(opt(args, "--out").unwrap_or("/dev/null"));
            let only: Option<u64> = opt(args, "--only").map(|s| s.parse().unwrap());
            let budget: u64 = opt(args, "--budget").map_or(if tier == Tier::Quick { 40 } else { 1500 }, |s| s.parse().unwrap());
            pipeline::silence_panics();
            let mut ctx = Ctx::new(&prop, tier, shard, n, seed, out, only, budget);
            let known = props::run(&prop, &mut ctx);
            if !known { eprintln!("unknown property {}", prop); return 2 }
            ctx.finish();
            0
        }
        "selfcheck" => { pipeline::silence_panics(); props::selfcheck::run(&args[1..]) }
        "merge-distinct" => { println!("{}", explore::merge_distinct(&args[1..])); 0 }
        "ref" => {
            // debugging aid: reference outcome of a source file (parsed by the real parser)
            pipeline::silence_panics();
            let src = std::fs::read_to_string(&args[1]).expect("cannot read file");
            match pipeline::parse_to_e(&src) {
                Ok(stmts) => {
                    let r = refsem::run(&stmts);
                    println!("status={:?} reason={} steps={}\n--- out ---\n{}", r.status, r.reason, r.steps, r.out);
                    0
                }
                Err(e) => { println!("parse error: {}", e); 1 }
            }
        }
        other => { eprintln!("unknown __verif command {}", other); 2 }
    }
}
