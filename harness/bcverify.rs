//! V — bytecode validator (C02): well-formedness of every reference and an exhaustive exploration
//! of each method's abstract transition system over states (pc, operand-stack depth).

use super::codec::{Const, Ins, Prog};
use std::collections::{HashMap, HashSet, VecDeque};

#[derive(Debug, Clone)]
pub struct Finding { pub key: String, pub what: String }

pub struct Verdict { pub findings: Vec<Finding>, pub states: u64, pub transitions: u64, pub methods: u64 }

fn f(key: &str, what: String) -> Finding { Finding { key: key.to_string(), what } }

pub fn verify(p: &Prog) -> Verdict {
    let mut out: Vec<Finding> = vec![];
    let kind = |i: u16| -> &'static str {
        match p.consts.get(i as usize) {
            None => "missing", Some(Const::Int(_)) => "int", Some(Const::Null) => "null", Some(Const::Str(_)) => "string",
            Some(Const::Method { .. }) => "method", Some(Const::Slot(_)) => "slot", Some(Const::Class(_)) => "class", Some(Const::Bool(_)) => "bool",
        }
    };
    // globals, entry
    for (gi, g) in p.globals.iter().enumerate() {
        let k = kind(*g);
        if k != "slot" && k != "method" { out.push(f("wellformed/global-kind", format!("global {} refers to constant #{} of kind {}", gi, g, k))) }
    }
    if kind(p.entry) != "method" { out.push(f("wellformed/entry-kind", format!("entry refers to constant #{} of kind {}", p.entry, kind(p.entry)))) }
    // constants
    for (ci, c) in p.consts.iter().enumerate() {
        match c {
            Const::Slot(n) => if kind(*n) != "string" { out.push(f("wellformed/slot-name", format!("slot #{} names constant #{} of kind {}", ci, n, kind(*n)))) },
            Const::Class(ms) => for m in ms {
                let k = kind(*m);
                if k != "slot" && k != "method" { out.push(f("wellformed/class-member", format!("class #{} has member #{} of kind {}", ci, m, k))) }
            },
            Const::Method { name, .. } => if kind(*name) != "string" { out.push(f("wellformed/method-name", format!("method #{} names constant #{} of kind {}", ci, name, kind(*name)))) },
            _ => {}
        }
    }
    // labels: defined exactly once program-wide (by name)
    let mut label_def: HashMap<&str, Vec<(usize, usize)>> = HashMap::new(); // name -> (method const index, pc)
    for (ci, c) in p.consts.iter().enumerate() {
        if let Const::Method { code, .. } = c {
            for (pc, ins) in code.iter().enumerate() {
                if let Ins::Label(n) = ins {
                    match p.str_at(*n) {
                        Some(s) => label_def.entry(s).or_default().push((ci, pc)),
                        None => out.push(f("wellformed/label-name", format!("method #{} pc {}: label names constant #{} of kind {}", ci, pc, n, kind(*n)))),
                    }
                }
            }
        }
    }
    for (name, defs) in &label_def {
        if defs.len() > 1 { out.push(f("labels/defined-more-than-once", format!("label `{}` is defined {} times: {:?}", name, defs.len(), defs))) }
    }
    let mut states = 0u64; let mut transitions = 0u64; let mut methods = 0u64;
    for (ci, c) in p.consts.iter().enumerate() {
        let (arity, locals, code) = match c { Const::Method { arity, locals, code, .. } => (*arity as usize, *locals as usize, code), _ => continue };
        methods += 1;
        let is_entry = ci == p.entry as usize;
        // per-instruction reference checks
        let mut target: HashMap<usize, usize> = HashMap::new(); // pc of jump -> pc of label
        for (pc, ins) in code.iter().enumerate() {
            let want = |i: u16, kinds: &[&str], what: &str, out: &mut Vec<Finding>| {
                if !kinds.contains(&kind(i)) { out.push(f("wellformed/operand-kind", format!("method #{} pc {}: {} refers to constant #{} of kind {}", ci, pc, what, i, kind(i)))) }
            };
            match *ins {
                Ins::Lit(i) => want(i, &["int", "bool", "null"], "lit", &mut out),
                Ins::Print(i, _) => want(i, &["string"], "printf", &mut out),
                Ins::Object(i) => want(i, &["class"], "object", &mut out),
                Ins::GetSlot(i) | Ins::SetSlot(i) => want(i, &["string"], "slot access", &mut out),
                Ins::CallSlot(i, n) => { want(i, &["string"], "call slot", &mut out); if n == 0 { out.push(f("wellformed/call-slot-arity-zero", format!("method #{} pc {}: call slot with 0 arguments (no receiver)", ci, pc))) } }
                Ins::Call(i, _) => want(i, &["string"], "call", &mut out),
                Ins::GetGlobal(i) | Ins::SetGlobal(i) => want(i, &["string"], "global access", &mut out),
                Ins::GetLocal(i) | Ins::SetLocal(i) => if (i as usize) >= arity + locals {
                    out.push(f("frame/local-index-out-of-frame", format!("method #{} pc {}: local {} but the frame has {} arguments + {} locals", ci, pc, i, arity, locals)))
                },
                Ins::Branch(i) | Ins::Goto(i) => {
                    want(i, &["string"], "jump", &mut out);
                    if let Some(name) = p.str_at(i) {
                        match label_def.get(name) {
                            None => out.push(f("labels/undefined-target", format!("method #{} pc {}: jump to undefined label `{}`", ci, pc, name))),
                            Some(defs) => match defs.iter().find(|d| d.0 == ci) {
                                Some(d) => { target.insert(pc, d.1); }
                                None => out.push(f("labels/target-in-other-method", format!("method #{} pc {}: label `{}` is defined in method #{}", ci, pc, name, defs[0].0))),
                            },
                        }
                    }
                }
                Ins::Label(_) | Ins::Array | Ins::Return | Ins::Drop => {}
            }
        }
        // abstract exploration over (pc, depth)
        let mut depth_at: HashMap<usize, i64> = HashMap::new();
        let mut seen: HashSet<(usize, i64)> = HashSet::new();
        let mut queue: VecDeque<(usize, i64)> = VecDeque::new();
        if !code.is_empty() { queue.push_back((0, 0)); seen.insert((0, 0)); }
        let mut reported: HashSet<(usize, &'static str)> = HashSet::new();
        while let Some((pc, d)) = queue.pop_front() {
            states += 1;
            if states > 5_000_000 { out.push(f("explore/state-budget", "abstract state budget exceeded".to_string())); break }
            match depth_at.get(&pc) {
                Some(prev) if *prev != d => {
                    if reported.insert((pc, "path")) {
                        out.push(f("stack/path-dependent-depth", format!("method #{} pc {} ({:?}) is reached with operand-stack depths {} and {}", ci, pc, code[pc], prev, d)))
                    }
                    continue; // each pc is expanded with its first depth only, so the exploration is finite
                }
                None => { depth_at.insert(pc, d); }
                _ => {}
            }
            let ins = code[pc];
            let (pops, pushes): (i64, i64) = match ins {
                Ins::Lit(_) | Ins::GetLocal(_) | Ins::GetGlobal(_) => (0, 1),
                Ins::SetLocal(_) | Ins::SetGlobal(_) => (1, 1),
                Ins::Drop => (1, 0),
                Ins::Array => (2, 1),
                Ins::GetSlot(_) => (1, 1),
                Ins::SetSlot(_) => (2, 1),
                Ins::Object(c) => {
                    let slots = match p.consts.get(c as usize) {
                        Some(Const::Class(ms)) => ms.iter().filter(|m| matches!(p.consts.get(**m as usize), Some(Const::Slot(_)))).count() as i64,
                        _ => 0,
                    };
                    (slots + 1, 1)
                }
                Ins::CallSlot(_, n) | Ins::Call(_, n) | Ins::Print(_, n) => (n as i64, 1),
                Ins::Label(_) | Ins::Goto(_) => (0, 0),
                Ins::Branch(_) => (1, 0),
                Ins::Return => (0, 0),
            };
            if d < pops {
                if reported.insert((pc, "neg")) {
                    out.push(f("stack/negative-depth", format!("method #{} pc {} ({:?}) pops {} with only {} operands on the stack", ci, pc, ins, pops, d)));
                }
                continue;
            }
            let nd = d - pops + pushes;
            let mut succ: Vec<usize> = vec![];
            match ins {
                Ins::Return => {
                    if d != 1 && reported.insert((pc, "ret")) {
                        out.push(f("stack/depth-at-return", format!("method #{} pc {}: return with operand-stack depth {} (must be exactly 1)", ci, pc, d)));
                    }
                }
                Ins::Goto(_) => if let Some(t) = target.get(&pc) { succ.push(*t) },
                Ins::Branch(_) => { succ.push(pc + 1); if let Some(t) = target.get(&pc) { succ.push(*t) } }
                _ => succ.push(pc + 1),
            }
            for s in succ {
                if s >= code.len() {
                    // falling off the end: only the entry method may do that (it has no return)
                    if !is_entry && reported.insert((pc, "fall")) {
                        out.push(f("wellformed/falls-off-method-end", format!("method #{} pc {}: control leaves the method without return", ci, pc)));
                    }
                    continue;
                }
                transitions += 1;
                if nd > 100_000 { continue }
                if seen.insert((s, nd)) { queue.push_back((s, nd)) }
            }
        }
    }
    Verdict { findings: out, states, transitions, methods }
}
