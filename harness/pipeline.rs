//! The only file of the harness that calls into the repository (API surface of DESIGN.md §2).
//! Everything is wrapped in `catch_unwind`: the subject panics freely (`expect`, `unwrap`,
//! `panic!`), and a panic is simply the outcome *fail*.

use std::panic::{catch_unwind, AssertUnwindSafe};
use std::path::PathBuf;

use crate::parser::{AST, Identifier};
use crate::fml::TopLevelParser;
use crate::bytecode::program::Program;
use crate::bytecode::serializable::Serializable;
use crate::bytecode::state::State;
use crate::bytecode::interpreter::{evaluate_with, step_with};

use super::syntax::{E, Member};

pub fn silence_panics() {
    std::panic::set_hook(Box::new(|_| {}));
}

fn panic_text(p: Box<dyn std::any::Any + Send>) -> String {
    if let Some(s) = p.downcast_ref::<&str>() { format!("panic: {}", s) }
    else if let Some(s) = p.downcast_ref::<String>() { format!("panic: {}", s) }
    else { "panic".to_string() }
}

thread_local! {
    // Building the parser compiles the lexer's regular expressions (about 1 ms); the parser object
    // is immutable, so one instance per worker is the same code path as a fresh one per program.
    static PARSER: TopLevelParser = TopLevelParser::new();
}

pub fn parse(src: &str) -> Result<AST, String> {
    match catch_unwind(AssertUnwindSafe(|| PARSER.with(|p| p.parse(src).map_err(|e| format!("{:?}", e))))) {
        Ok(r) => r,
        Err(p) => Err(panic_text(p)),
    }
}

pub fn compile(ast: &AST) -> Result<Program, String> {
    match catch_unwind(AssertUnwindSafe(|| crate::bytecode::compile(ast).map_err(|e| format!("{:#}", e)))) {
        Ok(r) => r,
        Err(p) => Err(panic_text(p)),
    }
}

pub fn serialize(p: &Program) -> Result<Vec<u8>, String> {
    match catch_unwind(AssertUnwindSafe(|| {
        let mut v: Vec<u8> = Vec::new();
        p.serialize(&mut v).map(|_| v).map_err(|e| format!("{:#}", e))
    })) {
        Ok(r) => r,
        Err(p) => Err(panic_text(p)),
    }
}

pub fn serialize_into<W: std::io::Write>(p: &Program, sink: &mut W) -> Result<(), String> {
    match catch_unwind(AssertUnwindSafe(|| p.serialize(sink).map_err(|e| format!("{:#}", e)))) {
        Ok(r) => r,
        Err(p) => Err(panic_text(p)),
    }
}

pub fn load(bytes: &[u8]) -> Result<Program, String> {
    match catch_unwind(AssertUnwindSafe(|| {
        let mut cursor = std::io::Cursor::new(bytes);
        let p = Program::from_bytes(&mut cursor);
        (p, cursor.position() as usize)
    })) {
        Ok((p, used)) => if used == bytes.len() { Ok(p) } else { Err(format!("loader consumed {} of {} bytes", used, bytes.len())) },
        Err(p) => Err(panic_text(p)),
    }
}

/// a reader that hands out at most `k` bytes per `read` call (a legitimate `Read` implementation)
pub struct Chunked<'a> { pub data: &'a [u8], pub pos: usize, pub k: usize }
impl<'a> std::io::Read for Chunked<'a> {
    fn read(&mut self, buf: &mut [u8]) -> std::io::Result<usize> {
        let n = buf.len().min(self.k).min(self.data.len() - self.pos);
        buf[..n].copy_from_slice(&self.data[self.pos..self.pos + n]);
        self.pos += n;
        Ok(n)
    }
}

pub fn load_chunked(bytes: &[u8], k: usize) -> Result<Program, String> {
    match catch_unwind(AssertUnwindSafe(|| {
        let mut r = Chunked { data: bytes, pos: 0, k };
        let p = Program::from_bytes(&mut r);
        (p, r.pos)
    })) {
        Ok((p, used)) => if used == bytes.len() { Ok(p) } else { Err(format!("loader consumed {} of {} bytes", used, bytes.len())) },
        Err(p) => Err(panic_text(p)),
    }
}

/// through a BufReader with a small buffer, as `fml execute <file>` reads (short reads at refill boundaries)
pub fn load_buffered(bytes: &[u8], capacity: usize) -> Result<Program, String> {
    match catch_unwind(AssertUnwindSafe(|| {
        let mut r = std::io::BufReader::with_capacity(capacity, std::io::Cursor::new(bytes));
        Program::from_bytes(&mut r)
    })) {
        Ok(p) => Ok(p),
        Err(p) => Err(panic_text(p)),
    }
}

/// how many bytes the loader consumes (for the "no trailing bytes" direction of C04)
pub fn load_consumed(bytes: &[u8]) -> Result<usize, String> {
    match catch_unwind(AssertUnwindSafe(|| {
        let mut cursor = std::io::Cursor::new(bytes);
        let _ = Program::from_bytes(&mut cursor);
        cursor.position() as usize
    })) {
        Ok(n) => Ok(n),
        Err(p) => Err(panic_text(p)),
    }
}

#[derive(Clone, Debug, PartialEq, Eq)]
pub struct RunResult { pub ok: bool, pub out: String, pub err: String }

/// what `evaluate_with_memory_config` does, with the output captured
pub fn execute(p: &Program) -> RunResult { execute_cfg(p, None, None) }

pub fn execute_cfg(p: &Program, heap_size: Option<usize>, heap_log: Option<PathBuf>) -> RunResult {
    let mut out = String::new();
    let r = catch_unwind(AssertUnwindSafe(|| -> Result<(), String> {
        let mut state = State::from(p).map_err(|e| format!("{:#}", e))?;
        if let Some(n) = heap_size { state.heap.set_size(n) }
        if let Some(l) = heap_log { state.heap.set_log(l) }
        evaluate_with(p, &mut state, &mut out).map_err(|e| format!("{:#}", e))
    }));
    match r {
        Ok(Ok(())) => RunResult { ok: true, out, err: String::new() },
        Ok(Err(e)) => RunResult { ok: false, out, err: e },
        Err(p) => RunResult { ok: false, out, err: panic_text(p) },
    }
}

/// Fuel-bounded execution for relational checks on programs without a reference run: the
/// repository's own single-step function in the loop `evaluate_with` consists of.
/// Returns (result, steps, finished).
pub fn execute_bounded(p: &Program, max_steps: u64) -> (RunResult, u64, bool) {
    let mut out = String::new();
    let mut steps = 0u64;
    let mut finished = false;
    let r = catch_unwind(AssertUnwindSafe(|| -> Result<(), String> {
        let mut state = State::from(p).map_err(|e| format!("{:#}", e))?;
        while state.instruction_pointer.get().is_some() {
            if steps >= max_steps || out.len() > 200_000 { return Ok(()) }
            steps += 1;
            step_with(p, &mut state, &mut out).map_err(|e| format!("{:#}", e))?;
        }
        finished = true;
        Ok(())
    }));
    let res = match r {
        Ok(Ok(())) => RunResult { ok: true, out, err: String::new() },
        Ok(Err(e)) => RunResult { ok: false, out, err: e },
        Err(p) => RunResult { ok: false, out, err: panic_text(p) },
    };
    (res, steps, finished)
}

pub fn listing(p: &Program) -> Result<String, String> {
    match catch_unwind(AssertUnwindSafe(|| format!("{}", p))) {
        Ok(s) => Ok(s),
        Err(p) => Err(panic_text(p)),
    }
}

pub fn code_len(p: &Program) -> usize { p.code.length() }

#[derive(Clone, Debug)]
pub struct Staged {
    /// stage that refused the program ("parse" | "compile" | "serialize" | "load"), if any
    pub refused: Option<(String, String)>,
    pub bytes: Vec<u8>,
    /// compile -> interpret (what `fml run` does)
    pub direct: Option<RunResult>,
    /// compile -> serialize -> load -> interpret
    pub loaded: Option<RunResult>,
}

/// source text through both paths of C01
pub fn run_source(src: &str, want_loaded: bool) -> Staged {
    let mut st = Staged { refused: None, bytes: vec![], direct: None, loaded: None };
    let ast = match parse(src) { Ok(a) => a, Err(e) => { st.refused = Some(("parse".into(), e)); return st } };
    let prog = match compile(&ast) { Ok(p) => p, Err(e) => { st.refused = Some(("compile".into(), e)); return st } };
    st.direct = Some(execute(&prog));
    if want_loaded {
        match serialize(&prog) {
            Ok(b) => {
                match load(&b) {
                    Ok(p2) => st.loaded = Some(execute(&p2)),
                    Err(e) => st.refused = Some(("load".into(), e)),
                }
                st.bytes = b;
            }
            Err(e) => st.refused = Some(("serialize".into(), e)),
        }
    }
    st
}

pub fn compile_source(src: &str) -> Result<Vec<u8>, (String, String)> {
    let ast = parse(src).map_err(|e| ("parse".to_string(), e))?;
    let prog = compile(&ast).map_err(|e| ("compile".to_string(), e))?;
    serialize(&prog).map_err(|e| ("serialize".to_string(), e))
}

// ------------------------------------------------------------------ AST interchange (C06)

#[derive(Clone, Copy, Debug, PartialEq, Eq)]
pub enum AstFormat { Json, Lisp, Yaml }
impl AstFormat {
    pub const ALL: [AstFormat; 3] = [AstFormat::Json, AstFormat::Lisp, AstFormat::Yaml];
    pub fn name(&self) -> &'static str { match self { AstFormat::Json => "json", AstFormat::Lisp => "lisp", AstFormat::Yaml => "yaml" } }
    fn real(&self) -> crate::ASTSerializer {
        match self { AstFormat::Json => crate::ASTSerializer::JSON, AstFormat::Lisp => crate::ASTSerializer::LISP, AstFormat::Yaml => crate::ASTSerializer::YAML }
    }
}

pub fn ast_to_text(ast: &AST, f: AstFormat) -> Result<String, String> {
    match catch_unwind(AssertUnwindSafe(|| f.real().serialize(ast).map_err(|e| format!("{:#}", e)))) {
        Ok(r) => r,
        Err(p) => Err(panic_text(p)),
    }
}

pub fn ast_from_text(text: &str, f: AstFormat) -> Result<AST, String> {
    match catch_unwind(AssertUnwindSafe(|| f.real().deserialize(text).map_err(|e| format!("{:#}", e)))) {
        Ok(r) => r,
        Err(p) => Err(panic_text(p)),
    }
}

pub fn ast_eq(a: &AST, b: &AST) -> bool { a == b }
pub fn ast_debug(a: &AST) -> String { format!("{:?}", a) }

/// serialize through main.rs's `NamedSink` wrapped around an arbitrary writer
pub fn serialize_via_named_sink(p: &Program, w: Box<dyn std::io::Write>) -> Result<(), String> {
    match catch_unwind(AssertUnwindSafe(|| {
        let mut sink = crate::NamedSink { name: crate::Stream::Console, sink: w };
        let r = crate::BCSerializer::BYTES.serialize(p, &mut sink).map_err(|e| format!("{:#}", e));
        let f = std::io::Write::flush(&mut sink).map_err(|e| format!("flush: {}", e));
        r.and(f)
    })) {
        Ok(r) => r,
        Err(p) => Err(panic_text(p)),
    }
}

// ------------------------------------------------------------------ AST <-> E converters

fn id(s: &str) -> Identifier { Identifier(s.to_string()) }

/// build the repository's AST for a harness tree (normalised form: what the parser would build)
pub fn e_to_ast(e: &E) -> AST {
    use E::*;
    let bx = |x: &E| Box::new(e_to_ast(x));
    let vx = |v: &Vec<E>| v.iter().map(|x| Box::new(e_to_ast(x))).collect::<Vec<Box<AST>>>();
    match e {
        Int(i) => AST::Integer(*i),
        Bool(x) => AST::Boolean(*x),
        Null => AST::Null,
        Var(n) => AST::AccessVariable { name: id(n) },
        Let(n, v) => AST::Variable { name: id(n), value: bx(v) },
        Set(n, v) => AST::AssignVariable { name: id(n), value: bx(v) },
        Block(v) => if v.is_empty() { AST::Null } else { AST::Block(vx(v)) },
        If(c, t, f) => AST::Conditional { condition: bx(c), consequent: bx(t),
            alternative: f.as_ref().map_or(Box::new(AST::Null), |x| bx(x)) },
        While(c, body) => AST::Loop { condition: bx(c), body: bx(body) },
        Call(n, a) => AST::CallFunction { name: id(n), arguments: vx(a) },
        Array(n, v) => AST::Array { size: bx(n), value: bx(v) },
        Idx(a, i) => AST::AccessArray { array: bx(a), index: bx(i) },
        IdxSet(a, i, v) => AST::AssignArray { array: bx(a), index: bx(i), value: bx(v) },
        Object(p, ms) => AST::Object {
            extends: p.as_ref().map_or(Box::new(AST::Null), |x| bx(x)),
            members: ms.iter().map(|m| Box::new(match m {
                Member::Field(n, v) => AST::Variable { name: id(n), value: bx(v) },
                Member::Method(n, ps, body) => AST::Function { name: id(n), parameters: ps.iter().map(|p| id(p)).collect(), body: bx(body) },
            })).collect(),
        },
        FGet(o, f) => AST::AccessField { object: bx(o), field: id(f) },
        FSet(o, f, v) => AST::AssignField { object: bx(o), field: id(f), value: bx(v) },
        MCall(o, n, a) => AST::CallMethod { object: bx(o), name: id(n), arguments: vx(a) },
        BinOp(op, l, r) => AST::CallMethod { object: bx(l), name: id(op), arguments: vec![bx(r)] },
        Print(f, a) => AST::Print { format: f.clone(), arguments: vx(a) },
        Fun(n, ps, body) => AST::Function { name: id(n), parameters: ps.iter().map(|p| id(p)).collect(), body: bx(body) },
    }
}

pub fn program_to_ast(stmts: &[E]) -> AST {
    AST::Top(stmts.iter().map(|s| Box::new(e_to_ast(s))).collect())
}

/// read-only conversion of a real AST into the harness tree (normalised form)
pub fn ast_to_e(a: &AST) -> E {
    let bx = |x: &Box<AST>| Box::new(ast_to_e(x));
    let vx = |v: &Vec<Box<AST>>| v.iter().map(|x| ast_to_e(x)).collect::<Vec<E>>();
    match a {
        AST::Integer(i) => E::Int(*i),
        AST::Boolean(b) => E::Bool(*b),
        AST::Null => E::Null,
        AST::Variable { name, value } => E::Let(name.0.clone(), bx(value)),
        AST::Array { size, value } => E::Array(bx(size), bx(value)),
        AST::Object { extends, members } => E::Object(Some(bx(extends)), members.iter().map(|m| match &**m {
            AST::Variable { name, value } => Member::Field(name.0.clone(), ast_to_e(value)),
            AST::Function { name, parameters, body } =>
                Member::Method(name.0.clone(), parameters.iter().map(|p| p.0.clone()).collect(), ast_to_e(body)),
            other => Member::Field("<non-member>".to_string(), ast_to_e(other)),
        }).collect()),
        AST::AccessVariable { name } => E::Var(name.0.clone()),
        AST::AccessField { object, field } => E::FGet(bx(object), field.0.clone()),
        AST::AccessArray { array, index } => E::Idx(bx(array), bx(index)),
        AST::AssignVariable { name, value } => E::Set(name.0.clone(), bx(value)),
        AST::AssignField { object, field, value } => E::FSet(bx(object), field.0.clone(), bx(value)),
        AST::AssignArray { array, index, value } => E::IdxSet(bx(array), bx(index), bx(value)),
        AST::Function { name, parameters, body } =>
            E::Fun(name.0.clone(), parameters.iter().map(|p| p.0.clone()).collect(), bx(body)),
        AST::CallFunction { name, arguments } => E::Call(name.0.clone(), vx(arguments)),
        AST::CallMethod { object, name, arguments } => E::MCall(bx(object), name.0.clone(), vx(arguments)),
        AST::Top(v) => E::Block(vx(v)),
        AST::Block(v) => E::Block(vx(v)),
        AST::Loop { condition, body } => E::While(bx(condition), bx(body)),
        AST::Conditional { condition, consequent, alternative } => E::If(bx(condition), bx(consequent), Some(bx(alternative))),
        AST::Print { format, arguments } => E::Print(format.clone(), vx(arguments)),
    }
}

/// top-level statements of a parsed program, as harness trees
pub fn ast_program_to_e(a: &AST) -> Option<Vec<E>> {
    match a { AST::Top(v) => Some(v.iter().map(|x| ast_to_e(x)).collect()), _ => None }
}

pub fn parse_to_e(src: &str) -> Result<Vec<E>, String> {
    let ast = parse(src)?;
    ast_program_to_e(&ast).ok_or_else(|| "parser did not return a Top node".to_string())
}

/// The repository's in-memory `Program` built directly from the independent decoder's result - through
/// the public constructors only, never through the loader. `load(bytes) == construct(B.read(bytes))`
/// is "the file is loaded as the program it denotes" without any detour through the writer, and
/// `Display(load(bytes)) == Display(construct(..))` is a syntax-agnostic oracle for the listing.
pub fn construct(p: &super::codec::Prog) -> Result<Program, String> {
    use crate::bytecode::bytecode::OpCode;
    use crate::bytecode::program::{AddressRange, Arity, Code, ConstantPool, ConstantPoolIndex, Entry, Globals, LocalFrameIndex, ProgramObject, Size};
    use super::codec::{Const, Ins};
    let p = p.clone();
    match catch_unwind(AssertUnwindSafe(move || -> Result<Program, String> {
        let cpi = ConstantPoolIndex::new;
        let mut code: Vec<OpCode> = vec![];
        let mut objects: Vec<ProgramObject> = vec![];
        for c in &p.consts {
            objects.push(match c {
                Const::Int(i) => ProgramObject::Integer(*i),
                Const::Null => ProgramObject::Null,
                Const::Bool(b) => ProgramObject::Boolean(*b),
                Const::Str(s) => ProgramObject::String(s.clone()),
                Const::Slot(n) => ProgramObject::Slot { name: cpi(*n) },
                Const::Class(ms) => ProgramObject::Class(ms.iter().map(|m| cpi(*m)).collect()),
                Const::Method { name, arity, locals, code: body } => {
                    let start = code.len();
                    for ins in body {
                        code.push(match *ins {
                            Ins::Label(a) => OpCode::Label { name: cpi(a) }, Ins::Lit(a) => OpCode::Literal { index: cpi(a) },
                            Ins::Print(a, n) => OpCode::Print { format: cpi(a), arguments: Arity::new(n) }, Ins::Array => OpCode::Array,
                            Ins::Object(a) => OpCode::Object { class: cpi(a) }, Ins::GetSlot(a) => OpCode::GetField { name: cpi(a) },
                            Ins::SetSlot(a) => OpCode::SetField { name: cpi(a) }, Ins::CallSlot(a, n) => OpCode::CallMethod { name: cpi(a), arguments: Arity::new(n) },
                            Ins::Call(a, n) => OpCode::CallFunction { name: cpi(a), arguments: Arity::new(n) },
                            Ins::SetLocal(a) => OpCode::SetLocal { index: LocalFrameIndex::new(a) }, Ins::GetLocal(a) => OpCode::GetLocal { index: LocalFrameIndex::new(a) },
                            Ins::SetGlobal(a) => OpCode::SetGlobal { name: cpi(a) }, Ins::GetGlobal(a) => OpCode::GetGlobal { name: cpi(a) },
                            Ins::Branch(a) => OpCode::Branch { label: cpi(a) }, Ins::Goto(a) => OpCode::Jump { label: cpi(a) },
                            Ins::Return => OpCode::Return, Ins::Drop => OpCode::Drop,
                        });
                    }
                    ProgramObject::Method { name: cpi(*name), parameters: Arity::new(*arity), locals: Size::new(*locals), code: AddressRange::from(start, body.len()) }
                }
            });
        }
        let globals = Globals::from(p.globals.iter().map(|g| cpi(*g)).collect::<Vec<_>>());
        Program::from(Code::from(code), ConstantPool::from(objects), globals, Entry::from(cpi(p.entry))).map_err(|e| format!("{:#}", e))
    })) {
        Ok(r) => r,
        Err(e) => Err(panic_text(e)),
    }
}

/// `construct` lays method code out in pool order, as the loader does today. That is a convention of
/// the in-memory representation, not of the file format: if a future loader arranges code differently
/// (and is right to), comparing with `construct` would be a false alarm. The oracles that use it are
/// therefore switched on only if the convention holds on three small canary programs (compiler
/// output with functions, methods and labels, free of duplicate constants and long strings).
pub fn construct_convention_holds() -> bool {
    thread_local! { static HOLDS: std::cell::Cell<Option<bool>> = std::cell::Cell::new(None); }
    HOLDS.with(|h| {
        if let Some(v) = h.get() { return v }
        let canaries = ["print(\"hi\\n\")",
            "function f(a) -> if a < 1 then 0 else a + f(a - 1);\nlet o = object begin let x = 1; function m(k) -> this.x + k end;\nprint(\"~ ~\\n\", f(3), o.m(2))",
            "let i = 0;\nwhile i < 2 do begin let a = array(2, i); i <- i + 1 end;\nfunction g() -> null;\ng()"];
        let mut ok = true;
        for src in canaries {
            let good = (|| -> Option<bool> {
                let b = compile_source(src).ok()?;
                let d = super::codec::read(&b).ok()?;
                let l = load(&b).ok()?;
                let c = construct(&d).ok()?;
                Some(l == c && format!("{}", l) == format!("{}", c))
            })().unwrap_or(false);
            ok &= good;
        }
        h.set(Some(ok));
        ok
    })
}
