//! M — reference abstract machine of the instruction documentation (DESIGN.md Appendix C), over
//! the independent codec's program representation. One match arm per documented instruction.
//! Built-in method tables are the ones of the property statements (shared with R).

use super::codec::{Const, Ins, Prog};
use super::refsem::{array_builtin, bool_builtin, int_builtin, null_builtin, Status, Stop, V};
use std::collections::HashMap;

pub struct MResult { pub status: Status, pub out: String, pub reason: String, pub steps: u64 }

enum Obj { Array(Vec<V>), Object { parent: V, fields: Vec<(String, V)>, methods: Vec<(String, usize)> } }

struct Frame { ret: Option<(usize, usize)>, locals: Vec<V> }

type R<T> = Result<T, Stop>;
fn fail<T>(s: &str) -> R<T> { Err(Stop::Fail(s.to_string())) }
fn unspec<T>(s: &str) -> R<T> { Err(Stop::Unspec(s.to_string())) }

pub struct Machine<'a> {
    p: &'a Prog,
    stack: Vec<V>,
    frames: Vec<Frame>,
    globals: HashMap<String, V>,
    functions: HashMap<String, usize>,
    labels: HashMap<String, (usize, usize)>,
    heap: Vec<Obj>,
    out: String,
    steps: u64,
    max_steps: u64,
}

impl<'a> Machine<'a> {
    fn s(&self, i: u16) -> R<&'a str> {
        match self.p.consts.get(i as usize) { Some(Const::Str(s)) => Ok(s.as_str()), _ => unspec("ill-formed: operand is not a string constant") }
    }
    fn code(&self, m: usize) -> R<&'a Vec<Ins>> {
        match self.p.consts.get(m) { Some(Const::Method { code, .. }) => Ok(code), _ => unspec("ill-formed: not a method") }
    }
    fn pop(&mut self) -> R<V> { match self.stack.pop() { Some(v) => Ok(v), None => fail("operand stack empty") } }

    fn render(&self, v: V, path: &mut Vec<usize>, out: &mut String) -> R<()> {
        match v {
            V::Null => out.push_str("null"),
            V::Bool(b) => out.push_str(if b { "true" } else { "false" }),
            V::Int(i) => out.push_str(&i.to_string()),
            V::Unk => return unspec("U3 value of built-in set observed"),
            V::Ref(i) => {
                if path.contains(&i) { return unspec("cyclic print") }
                if out.len() > 100_000 { return unspec("U9 output") }
                path.push(i);
                match &self.heap[i] {
                    Obj::Array(cells) => {
                        out.push('[');
                        for (j, c) in cells.iter().enumerate() { if j > 0 { out.push_str(", ") } self.render(*c, path, out)?; }
                        out.push(']');
                    }
                    Obj::Object { parent, fields, .. } => {
                        out.push_str("object(");
                        let mut first = true;
                        if *parent != V::Null { out.push_str("..="); self.render(*parent, path, out)?; first = false }
                        let mut fs: Vec<&(String, V)> = fields.iter().collect();
                        fs.sort_by(|a, b| a.0.cmp(&b.0));
                        for (n, val) in fs { if !first { out.push_str(", ") } first = false; out.push_str(n); out.push('='); self.render(*val, path, out)?; }
                        out.push(')');
                    }
                }
                path.pop();
            }
        }
        Ok(())
    }

    fn printf(&mut self, fmt: &str, args: &[V]) -> R<()> {
        let mut buf = String::new();
        let mut k = 0;
        let mut it = fmt.chars();
        while let Some(c) = it.next() {
            match c {
                '\\' => match it.next() {
                    None => return unspec("U7 trailing backslash"),
                    Some('n') => buf.push('\n'), Some('t') => buf.push('\t'), Some('r') => buf.push('\r'),
                    Some('\\') => buf.push('\\'), Some('"') => buf.push('"'), Some('~') => buf.push('~'),
                    Some(_) => return unspec("U7 unknown escape"),
                },
                '~' => {
                    if k >= args.len() { return fail("too few print arguments") }
                    let mut path = vec![];
                    self.render(args[k], &mut path, &mut buf)?;
                    k += 1;
                }
                c => buf.push(c),
            }
        }
        if k != args.len() { return fail("too many print arguments") }
        self.out.push_str(&buf);
        if self.out.len() > 200_000 { return unspec("U9 output") }
        Ok(())
    }

    /// dispatch `name` on `recv`; Ok(Some(v)) = built-in result, Ok(None) = a user method frame was pushed
    fn send(&mut self, recv: V, name: &str, args: Vec<V>, ret: (usize, usize)) -> R<Option<V>> {
        let mut cur = recv;
        let mut hops = 0;
        loop {
            match cur {
                V::Unk => return unspec("U3 value of built-in set observed"),
                V::Null => return null_builtin(name, &args).map(Some),
                V::Bool(b) => return bool_builtin(b, name, &args).map(Some),
                V::Int(i) => return int_builtin(i, name, &args).map(Some),
                V::Ref(i) => {
                    let (found, parent) = match &mut self.heap[i] {
                        Obj::Array(cells) => {
                            // U3: the built-in `set` yields the unspecified value V::Unk
                            return array_builtin(cells, name, &args).map(Some);
                        }
                        Obj::Object { parent, methods, .. } => (methods.iter().find(|m| m.0 == name).map(|m| m.1), *parent),
                    };
                    if let Some(mi) = found {
                        let (arity, locals) = match &self.p.consts[mi] { Const::Method { arity, locals, .. } => (*arity as usize, *locals as usize), _ => return unspec("ill-formed member") };
                        if arity == 0 { return unspec("ill-formed: member method without a receiver slot") }
                        if args.len() != arity - 1 { return fail("method arity") }
                        // U4: which object slot 0 holds when the method was found in an ancestor is not specified
                        if hops > 0 {
                            if let Const::Method { code, .. } = &self.p.consts[mi] {
                                if code.iter().any(|i| matches!(i, Ins::GetLocal(0) | Ins::SetLocal(0))) { return unspec("U4 slot 0 of a method found in an ancestor") }
                            }
                        }
                        let mut l = vec![cur];
                        l.extend(args);
                        l.extend(std::iter::repeat(V::Null).take(locals));
                        self.frames.push(Frame { ret: Some(ret), locals: l });
                        if self.frames.len() > 3000 { return unspec("U9 depth") }
                        return Ok(None);
                    }
                    if parent == V::Null { return fail("no such method") }
                    cur = parent;
                    hops += 1;
                    if hops > 10_000 { return unspec("cyclic parent chain") }
                }
            }
        }
    }
}

/// Err(reason) when the program is outside what the instruction documentation gives a meaning to
pub fn run(p: &Prog, max_steps: u64) -> MResult {
    let mut m = Machine { p, stack: vec![], frames: vec![], globals: HashMap::new(), functions: HashMap::new(), labels: HashMap::new(),
        heap: vec![], out: String::new(), steps: 0, max_steps };
    let r = exec(&mut m);
    let (status, reason) = match r { Ok(()) => (Status::Ok, String::new()), Err(Stop::Fail(s)) => (Status::Fail, s), Err(Stop::Unspec(s)) => (Status::Unspec, s) };
    MResult { status, out: m.out, reason, steps: m.steps }
}

fn exec(m: &mut Machine) -> R<()> {
    let p = m.p;
    // globals and functions
    for g in &p.globals {
        match p.consts.get(*g as usize) {
            Some(Const::Slot(n)) => { let name = m.s(*n)?.to_string(); if m.globals.insert(name, V::Null).is_some() { return fail("duplicate global") } }
            Some(Const::Method { name, .. }) => { let nm = m.s(*name)?.to_string(); if m.functions.insert(nm, *g as usize).is_some() { return fail("duplicate function") } }
            _ => return fail("global is neither slot nor method"),
        }
    }
    // labels program-wide; code order is pool order of the method constants
    let method_order: Vec<usize> = (0..p.consts.len()).filter(|i| matches!(p.consts[*i], Const::Method { .. })).collect();
    for mi in &method_order {
        for (pc, ins) in m.code(*mi)?.iter().enumerate() {
            if let Ins::Label(n) = ins { let name = m.s(*n)?.to_string(); if m.labels.insert(name, (*mi, pc)).is_some() { return unspec("label defined more than once") } }
        }
    }
    let entry = p.entry as usize;
    let (elocals, ecode_len) = match p.consts.get(entry) { Some(Const::Method { locals, code, .. }) => (*locals as usize, code.len()), _ => return fail("entry is not a method") };
    m.frames.push(Frame { ret: None, locals: vec![V::Null; elocals] });
    if ecode_len == 0 { return Ok(()) }
    let (mut cm, mut pc) = (entry, 0usize);
    loop {
        let code = m.code(cm)?;
        if pc >= code.len() {
            // control left a method without `return`: meaningful only for the entry method placed last
            if cm == entry && method_order.last() == Some(&entry) && m.frames.len() == 1 { return Ok(()) }
            return unspec("control falls off the end of a method");
        }
        m.steps += 1;
        if m.steps > m.max_steps { return unspec("U9 fuel") }
        let ins = code[pc];
        let next = (cm, pc + 1);
        match ins {
            Ins::Lit(i) => match p.consts.get(i as usize) {
                Some(Const::Int(v)) => m.stack.push(V::Int(*v)), Some(Const::Bool(b)) => m.stack.push(V::Bool(*b)), Some(Const::Null) => m.stack.push(V::Null),
                _ => return unspec("ill-formed: lit of a non-literal"),
            },
            Ins::GetLocal(i) => { let f = m.frames.last().unwrap(); match f.locals.get(i as usize) { Some(v) => { let v = *v; m.stack.push(v) } None => return fail("local index outside the frame") } }
            Ins::SetLocal(i) => { let v = *m.stack.last().ok_or(Stop::Fail("operand stack empty".into()))?; let f = m.frames.last_mut().unwrap(); match f.locals.get_mut(i as usize) { Some(x) => *x = v, None => return fail("local index outside the frame") } }
            Ins::GetGlobal(n) => { let name = m.s(n)?; match m.globals.get(name) { Some(v) => { let v = *v; m.stack.push(v) } None => return fail("no such global") } }
            Ins::SetGlobal(n) => { let name = m.s(n)?; let v = *m.stack.last().ok_or(Stop::Fail("operand stack empty".into()))?; match m.globals.get_mut(name) { Some(x) => *x = v, None => return fail("no such global") } }
            Ins::Object(c) => {
                let members = match p.consts.get(c as usize) { Some(Const::Class(ms)) => ms, _ => return unspec("ill-formed: object of a non-class") };
                let mut slot_names: Vec<String> = vec![]; let mut methods: Vec<(String, usize)> = vec![];
                for mi in members {
                    match p.consts.get(*mi as usize) {
                        Some(Const::Slot(n)) => slot_names.push(m.s(*n)?.to_string()),
                        Some(Const::Method { name, .. }) => { let nm = m.s(*name)?.to_string(); if methods.iter().any(|x| x.0 == nm) { return fail("duplicate method in class") } methods.push((nm, *mi as usize)) }
                        _ => return fail("class member is neither slot nor method"),
                    }
                }
                let mut vals: Vec<V> = vec![];
                for _ in 0..slot_names.len() { vals.push(m.pop()?) }
                vals.reverse(); // first slot = deepest value
                let parent = m.pop()?;
                if parent == V::Unk { return unspec("U3 value of built-in set observed") }
                let mut fields: Vec<(String, V)> = vec![];
                for (n, v) in slot_names.into_iter().zip(vals) { if fields.iter().any(|f| f.0 == n) { return fail("duplicate field in class") } fields.push((n, v)) }
                if m.heap.len() > 50_000 { return unspec("U9 heap") }
                m.heap.push(Obj::Object { parent, fields, methods });
                m.stack.push(V::Ref(m.heap.len() - 1));
            }
            Ins::Array => {
                let init = m.pop()?; let size = m.pop()?;
                if size == V::Unk { return unspec("U3 value of built-in set observed") }
                let n = match size { V::Int(n) if n >= 0 => n as usize, _ => return fail("array size") };
                if n > 100_000 || m.heap.len() > 50_000 { return unspec("U9 big array") }
                m.heap.push(Obj::Array(vec![init; n]));
                m.stack.push(V::Ref(m.heap.len() - 1));
            }
            Ins::GetSlot(n) => {
                let name = m.s(n)?; let o = m.pop()?;
                if o == V::Unk { return unspec("U3 value of built-in set observed") }
                match o { V::Ref(i) => match &m.heap[i] { Obj::Object { fields, .. } => match fields.iter().find(|f| f.0 == name) { Some(f) => { let v = f.1; m.stack.push(v) } None => return fail("no such field") }, _ => return fail("field of an array") }, _ => return fail("field of a primitive") }
            }
            Ins::SetSlot(n) => {
                let name = m.s(n)?; let v = m.pop()?; let o = m.pop()?;
                if o == V::Unk { return unspec("U3 value of built-in set observed") }
                match o { V::Ref(i) => match &mut m.heap[i] { Obj::Object { fields, .. } => match fields.iter_mut().find(|f| f.0 == name) { Some(f) => { f.1 = v; m.stack.push(v) } None => return fail("no such field") }, _ => return fail("field of an array") }, _ => return fail("field of a primitive") }
            }
            Ins::CallSlot(n, k) => {
                let name = m.s(n)?;
                if k == 0 { return fail("call slot without receiver") }
                let mut args: Vec<V> = vec![];
                for _ in 0..(k as usize - 1) { args.push(m.pop()?) }
                args.reverse();
                let recv = m.pop()?;
                match m.send(recv, name, args, next)? {
                    Some(v) => m.stack.push(v),
                    None => {
                        // frame pushed; jump to the method found: it is the method constant recorded in the frame's owner
                        let target = find_method(m, recv, name)?;
                        cm = target; pc = 0;
                        if m.code(cm)?.is_empty() { return unspec("control falls off the end of a method") }
                        continue;
                    }
                }
            }
            Ins::Call(n, k) => {
                let name = m.s(n)?;
                let fi = match m.functions.get(name) { Some(f) => *f, None => return fail("no such function") };
                let (arity, locals) = match &p.consts[fi] { Const::Method { arity, locals, .. } => (*arity as usize, *locals as usize), _ => return unspec("ill-formed") };
                if arity != k as usize { return fail("function arity") }
                let mut args: Vec<V> = vec![];
                for _ in 0..k { args.push(m.pop()?) }
                args.reverse();
                args.extend(std::iter::repeat(V::Null).take(locals));
                m.frames.push(Frame { ret: Some(next), locals: args });
                if m.frames.len() > 3000 { return unspec("U9 depth") }
                cm = fi; pc = 0;
                if m.code(cm)?.is_empty() { return unspec("control falls off the end of a method") }
                continue;
            }
            Ins::Print(f, k) => {
                let fmt = m.s(f)?;
                let mut args: Vec<V> = vec![];
                for _ in 0..k { args.push(m.pop()?) }
                args.reverse();
                m.printf(fmt, &args)?;
                m.stack.push(V::Null);
            }
            Ins::Label(_) => {}
            Ins::Goto(n) => { let name = m.s(n)?; match m.labels.get(name) { Some(t) => { cm = t.0; pc = t.1; continue } None => return fail("undefined label") } }
            Ins::Branch(n) => {
                let name = m.s(n)?; let v = m.pop()?;
                if v == V::Unk { return unspec("U3 value of built-in set observed") }
                if v != V::Null && v != V::Bool(false) { match m.labels.get(name) { Some(t) => { cm = t.0; pc = t.1; continue } None => return fail("undefined label") } }
            }
            Ins::Return => {
                let f = m.frames.pop().ok_or(Stop::Fail("no frame".into()))?;
                match f.ret { Some((rm, rpc)) => { cm = rm; pc = rpc; continue } None => return Ok(()) }
            }
            Ins::Drop => { m.pop()?; }
        }
        cm = next.0; pc = next.1;
    }
}

/// which method constant answers `name` on `recv` (after `send` has decided that a user method does)
fn find_method(m: &Machine, recv: V, name: &str) -> R<usize> {
    let mut cur = recv;
    loop {
        match cur {
            V::Ref(i) => match &m.heap[i] {
                Obj::Object { parent, methods, .. } => { if let Some(x) = methods.iter().find(|x| x.0 == name) { return Ok(x.1) } cur = *parent }
                _ => return unspec("internal"),
            },
            _ => return unspec("internal"),
        }
    }
}
