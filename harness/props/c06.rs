//! C06 — staged parse | compile | execute equals run, for every AST interchange format.
//! (i) AST shapes, (ii) strings and names, (iii) nesting depth (in-process through the real
//! ASTSerializer + compiler), (iv) CLI configurations as real processes.

use serde_json::json;
use std::path::PathBuf;
use std::time::Duration;
use super::super::cli::{self, CliResult};
use super::super::explore::{for_each_owned, Ctx};
use super::super::pipeline::{self, AstFormat};
use super::super::syntax::*;
use super::super::universes::{pair, syn};
use super::bcprops::big_program;
use super::c07::ast_grammar;
use crate::parser::AST;

/// maximal constructor nesting of the repository AST this tree denotes (an object member is an AST
/// node of its own: Object -> Function/Variable -> body/value)
fn depth(e: &E) -> usize {
    match e {
        E::Object(p, ms) => {
            let pd = p.as_ref().map_or(0, |x| depth(x));
            let md = ms.iter().map(|m| 1 + match m { Member::Field(_, v) => depth(v), Member::Method(_, _, b) => depth(b) }).max().unwrap_or(0);
            1 + pd.max(md)
        }
        _ => 1 + e.children().iter().map(|c| depth(c)).max().unwrap_or(0),
    }
}

/// K1 attribution: a refusal by the AST deserializer with the diagnostic class "recursion limit"
/// for an AST nested at least this deep (no shallower AST can serialize to a 128-level document)
fn k1_threshold(f: AstFormat) -> usize { match f { AstFormat::Json => 40, _ => 60 } }

fn interchange(ctx: &mut Ctx, origin: &str, stmts: &[E], describe: &str) {
    let ast = pipeline::program_to_ast(stmts);
    let d = stmts.iter().map(depth).max().unwrap_or(0) + 1;
    let direct = pipeline::compile(&ast).and_then(|p| pipeline::serialize(&p));
    ctx.count("asts", 1);
    for f in AstFormat::ALL {
        ctx.count("interchanges", 1);
        let text = match pipeline::ast_to_text(&ast, f) {
            Ok(t) => t,
            Err(e) => { ctx.violation(&format!("stage-refusal/{}/serializer", f.name()), "`fml parse` cannot write this AST", json!({"origin": origin, "format": f.name(), "case": describe, "error": e})); continue }
        };
        match pipeline::ast_from_text(&text, f) {
            Ok(back) => {
                if !pipeline::ast_eq(&ast, &back) {
                    ctx.violation(&format!("interchange/{}/reloaded-ast-differs", f.name()), "the AST read back from the interchange format is a different program",
                        json!({"origin": origin, "format": f.name(), "case": describe, "document": text.chars().take(600).collect::<String>(),
                               "original": pipeline::ast_debug(&ast).chars().take(600).collect::<String>(), "reloaded": pipeline::ast_debug(&back).chars().take(600).collect::<String>()}));
                    continue;
                }
                // compiled bytes identical whichever format carried the AST, and identical to what run compiles
                let staged = pipeline::compile(&back).and_then(|p| pipeline::serialize(&p));
                match (&direct, &staged) {
                    (Ok(a), Ok(b)) if a == b => {}
                    (Err(_), Err(_)) => {}
                    _ => ctx.violation(&format!("interchange/{}/compiled-bytes-differ", f.name()), "the staged compile does not produce the bytes run compiles",
                        json!({"origin": origin, "format": f.name(), "case": describe})),
                }
            }
            Err(e) => {
                let recursion = e.to_lowercase().contains("recursion limit");
                let key = if recursion && d >= k1_threshold(f) { format!("stage-refusal/{}/recursion-limit/ast-depth>={}", f.name(), k1_threshold(f)) }
                          else if recursion { format!("stage-refusal/{}/recursion-limit/shallow-ast", f.name()) }
                          else { format!("stage-refusal/{}/deserializer", f.name()) };
                ctx.violation(&key, "`fml compile` refuses an AST that `fml parse` wrote (and `fml run` accepts)",
                    json!({"origin": origin, "format": f.name(), "case": describe, "ast_depth": d, "error": e.chars().take(200).collect::<String>(), "document_head": text.chars().take(200).collect::<String>()}));
            }
        }
    }
}

fn shapes(ctx: &mut Ctx) {
    let n = if ctx.quick() { 3 } else { 4 };
    let mut g = ast_grammar();
    g.prepare(n);
    for size in 1..=n {
        ctx.stage(&format!("AST shapes: U-AST(n={}) x 3 formats", size));
        for_each_owned(ctx, &g, 0, size, size, |ctx, _s, e| {
            let prog = vec![fun("f", &["a", "b"], e.clone()), e.clone()];
            let text = show_min(&prog);
            interchange(ctx, "U-AST", &prog, &text);
            ctx.count("programs", 1);
            ctx.nontrivial(text.as_bytes());
            if ctx.want_sample() { ctx.sample(json!({"text": text})) }
        });
        if ctx.capped { return }
    }
    ctx.stage("AST shapes: U-PAIR(d=2) x 3 formats");
    let ts = pair::templates(); let fs = pair::fillers();
    for t in &ts { for f in &fs {
        if ctx.take().is_none() { continue }
        let prog = pair::in_frame(&pair::fill(t, f), true, (ctx.index % 4) as usize);
        let text = show(&prog);
        interchange(ctx, "U-PAIR", &prog, &text);
        ctx.count("programs", 1);
        ctx.nontrivial(text.as_bytes());
    } }
}

pub fn metachars() -> Vec<char> {
    vec![' ', '\t', '\r', '\n', '"', '\'', '\\', '#', ':', '-', '|', '>', '~', '(', ')', ';', '.', ',', '[', ']', '{', '}', '&', '*', '!', '%', '@', '?', '`',
         '\u{0}', '\u{7f}', '\u{1b}', '\u{85}', '\u{2028}', '\u{feff}', '0', '1', 'n', 'é', '👍']
}

fn strings(ctx: &mut Ctx) {
    let len = if ctx.quick() { 2 } else { 3 };
    ctx.stage(&format!("strings: all strings of length <= {} over 40 format metacharacters, in print formats", len));
    let alpha = metachars();
    let mut total: u64 = 0;
    for l in 0..=len { total += (alpha.len() as u64).pow(l as u32) }
    let base = ctx.index;
    loop {
        let off = ctx.next_owned_offset();
        let done = ctx.index - base;
        if off == u64::MAX || done + off >= total { break }
        ctx.skip(off);
        let mut rank = ctx.index - base;
        if ctx.take().is_some() {
            let mut l = 0u32;
            loop { let c = (alpha.len() as u64).pow(l); if rank < c { break } rank -= c; l += 1 }
            let mut s = String::new();
            for _ in 0..l { s.push(alpha[(rank % alpha.len() as u64) as usize]); rank /= alpha.len() as u64 }
            let prog = vec![print(&s, vec![int(1)]), let_("v", print(&s, vec![]))];
            interchange(ctx, "U-STR", &prog, &format!("print format {:?}", s));
            ctx.count("programs", 1);
            ctx.nontrivial(s.as_bytes());
            if ctx.want_sample() { ctx.sample(json!({"format_string": s})) }
        } else if ctx.capped { break }
    }
    ctx.index = base + total;
    ctx.stage("strings: every code point U+0000..U+017F and selected others");
    let mut cps: Vec<char> = (0u32..=0x17f).filter_map(char::from_u32).collect();
    cps.extend(['\u{2029}', '\u{fffd}', '\u{ffff}', '\u{10ffff}', '\u{200b}', '\u{d7ff}', '\u{e000}']);
    for c in cps {
        if ctx.take().is_none() { continue }
        for s in [c.to_string(), format!("a{}b", c), format!("{}{}", c, c), format!(" {}", c), format!("{} ", c), format!("- {}: x", c)] {
            let prog = vec![print(&s, vec![])];
            interchange(ctx, "U-STR/codepoint", &prog, &format!("print format {:?}", s));
            ctx.count("programs", 1);
            ctx.nontrivial(s.as_bytes());
        }
    }
    ctx.stage("names: operators and keyword-like identifiers in every name position");
    let mut names: Vec<String> = OPERATORS.iter().map(|s| s.to_string()).collect();
    names.extend(["null", "true", "false", "print", "this", "if", "end", "~", "", " ", "a b", "λ", "0", "-1", "no", "yes", "on", "off", "Null", "NaN", ".inf", "1e3", "0x10", "#t", "nil", "'q", "a.b", "a:b", "[x]", "{x}", "---", "...", "!!str x", "&a", "*a", "? x", "| x", "> x", "%TAG", "@x", "`x`"].iter().map(|s| s.to_string()));
    for n in names {
        if ctx.take().is_none() { continue }
        let prog = vec![
            fun(&n, &[&n], var(&n)), let_(&n, int(1)), set(&n, call(&n, vec![var(&n)])),
            object(None, vec![field(&n, int(1)), method(&n, &[&n, "x"], fget(var("this"), &n))]),
            fset(mcall(var(&n), &n, vec![]), &n, E::Null),
        ];
        interchange(ctx, "U-NAMES", &prog, &format!("name {:?} in every name position", n));
        ctx.count("programs", 1);
        ctx.nontrivial(n.as_bytes());
    }
    ctx.stage("integers: boundary literals");
    for i in [0, -1, 1, i32::MIN, i32::MAX, 255, 256, 65535, 65536, -2147483647] {
        if ctx.take().is_none() { continue }
        interchange(ctx, "U-INT", &[int(i), binop("+", int(i), int(i))], &format!("integer literal {}", i));
        ctx.count("programs", 1);
    }
}

fn nest(shape: usize, d: usize) -> E {
    let mut e = int(1);
    for i in 0..d {
        e = match shape {
            0 => block(vec![e, int(0)]),
            1 => if_(E::Bool(true), e, None),
            2 => if_(E::Bool(false), int(0), Some(e)),
            3 => let_(&format!("v{}", i), e),
            4 => call("id", vec![e]),
            5 => binop("+", int(1), e),
            6 => binop("+", e, int(1)),
            7 => array(int(1), e),
            8 => object(None, vec![field("f", e)]),
            9 => object(Some(e), vec![]),
            10 => print("~", vec![e]),
            11 => while_(E::Bool(false), e),
            12 => fget(e, "f"),
            13 => mcall(e, "me", vec![]),
            14 => idx(var("a"), e),
            15 => object(None, vec![method("m", &[], e)]),
            _ => set("x", e),
        };
    }
    e
}
const NEST_SHAPES: [&str; 17] = ["block", "if", "else", "let", "call", "operator-right", "operator-left", "array", "object-field", "object-parent", "print", "while", "field-chain", "method-chain", "index", "method-body", "assignment"];

fn nesting(ctx: &mut Ctx) {
    ctx.stage("nesting depth 1..400 x 17 constructs x 3 formats");
    let depths: Vec<usize> = if ctx.quick() { (1..=12).chain((15..=130).step_by(5)).chain([200, 400]).collect() } else { (1..=400).collect() };
    for shape in 0..NEST_SHAPES.len() {
        for d in &depths {
            if ctx.take().is_none() { continue }
            let prog = vec![nest(shape, *d)];
            interchange(ctx, "U-NEST", &prog, &format!("{} nested {} deep", NEST_SHAPES[shape], d));
            ctx.count("programs", 1);
            ctx.max("nesting_depth", *d as u64);
            ctx.nontrivial(format!("{}:{}", shape, d).as_bytes());
        }
    }
}

// ---------------------------------------------------------------------------- (iv) processes

#[derive(Clone, Debug)]
struct Config {
    format: usize,          // json / lisp / yaml
    parse_stdin: bool,
    parse_out: usize,       // 0 -o f.ext inferred, 1 -o f.ext + --format, 2 -o f.txt + --format, 3 -o dir/ + --format, 4 -o dir.ext/ inferred, 5 stdout + --format
    format_alias: usize,
    stale_outputs: bool,    // output paths already hold longer files
    compile_in: usize,      // 0 file inferred, 1 file + --input-format, 2 stdin + --input-format
    compile_out: usize,     // 0 -o file, 1 -o dir/, 2 stdout
    execute_stdin: bool,
}

fn default_config(format: usize) -> Config {
    Config { format, parse_stdin: false, parse_out: 0, format_alias: 0, stale_outputs: false, compile_in: 0, compile_out: 0, execute_stdin: false }
}

const EXT: [&str; 3] = ["json", "lisp", "yaml"];
fn aliases(format: usize) -> Vec<&'static str> {
    match format { 0 => vec!["json", "JSON", "Json"], 1 => vec!["lisp", "LISP", "sexp", "sexpr", "SExp"], _ => vec!["yaml", "YAML", "Yaml"] }
}

fn run_pipeline(ctx: &mut Ctx, src: &str, cfg: &Config, base: &CliResult, expected_bytes: &Result<Vec<u8>, (String, String)>) {
    let exe = ctx.exe.clone();
    let dir = ctx.scratch.join("cfg");
    let _ = std::fs::remove_dir_all(&dir);
    let _ = std::fs::create_dir_all(&dir);
    let t = Duration::from_secs(30);
    let ext = EXT[cfg.format];
    let alias = aliases(cfg.format)[cfg.format_alias % aliases(cfg.format).len()];
    cli::write_file(&dir, "prog.fml", src.as_bytes());
    let stale = |p: &PathBuf| { if cfg.stale_outputs { let _ = std::fs::write(p, vec![b'#'; 200_000]); } };
    // ---- parse
    let mut args: Vec<String> = vec!["parse".into()];
    if !cfg.parse_stdin { args.push("prog.fml".into()) }
    let mut ast_path: Option<PathBuf> = None;
    let stem = if cfg.parse_stdin { "ast" } else { "prog" };
    match cfg.parse_out {
        0 => { let p = dir.join(format!("a.{}", ext)); stale(&p); args.extend(["-o".into(), format!("a.{}", ext)]); ast_path = Some(p) }
        1 => { let p = dir.join(format!("a.{}", ext)); stale(&p); args.extend(["-o".into(), format!("a.{}", ext), "--format".into(), alias.into()]); ast_path = Some(p) }
        2 => { let p = dir.join("a.txt"); stale(&p); args.extend(["-o".into(), "a.txt".into(), "--format".into(), alias.into()]); ast_path = Some(p) }
        3 => { let _ = std::fs::create_dir_all(dir.join("outd")); let p = dir.join("outd").join(format!("{}.{}", stem, ext)); stale(&p); args.extend(["-o".into(), "outd/".into(), "--format".into(), alias.into()]); ast_path = Some(p) }
        4 => { let dn = format!("outd.{}", ext); let _ = std::fs::create_dir_all(dir.join(&dn)); let p = dir.join(&dn).join(format!("{}.{}", stem, ext)); stale(&p); args.extend(["-o".into(), format!("{}/", dn)]); ast_path = Some(p) }
        _ => { args.extend(["--format".into(), alias.into()]) }
    }
    let a: Vec<&str> = args.iter().map(|s| s.as_str()).collect();
    let p = cli::run(&exe, &a, if cfg.parse_stdin { Some(src.as_bytes()) } else { None }, Some(&dir), &[], t);
    ctx.count("cli_stages", 1);
    // a stage that writes into a directory chooses the file name itself: take the file it actually wrote
    // (anything that is not one of our 200 000-byte stale fillers)
    let fresh_file = |d: &std::path::Path| -> Option<PathBuf> {
        let mut files: Vec<PathBuf> = std::fs::read_dir(d).map(|rd| rd.flatten().map(|e| e.path()).filter(|p| p.is_file()).collect()).unwrap_or_default();
        files.sort();
        files.into_iter().find(|f| std::fs::read(f).map_or(false, |b| !(b.len() == 200_000 && b.iter().all(|x| *x == b'#'))))
    };
    if matches!(cfg.parse_out, 3 | 4) {
        if let Some(parent) = ast_path.as_ref().and_then(|g| g.parent().map(|x| x.to_path_buf())) { if let Some(f) = fresh_file(&parent) { ast_path = Some(f) } }
    }
    let describe = |stage: &str, res: &CliResult, args: &Vec<String>| json!({"text": if src.len() > 400 { format!("{}... ({} chars)", &src[..200], src.len()) } else { src.to_string() },
        "config": format!("{:?}", cfg), "stage": stage, "args": args, "exit": res.code, "signal": res.signal, "stderr": res.err().chars().take(300).collect::<String>()});
    let run_accepts = base.code == Some(0) || !base.err().contains("Parse error");
    if !p.ok() {
        if run_accepts { ctx.violation("cli/parse-stage-refuses", "`fml parse` refuses a program that `fml run` accepts", describe("parse", &p, &args)) }
        return;
    }
    let ast_text: Vec<u8> = match &ast_path { Some(pth) => std::fs::read(pth).unwrap_or_default(), None => p.stdout.clone() };
    if ast_text.is_empty() { ctx.violation("cli/parse-output-missing", "`fml parse` exited 0 but the expected AST file is missing or empty", describe("parse", &p, &args)); return }
    // the AST document must reload to the AST of the source
    if let (Ok(orig), Ok(t)) = (pipeline::parse(src), String::from_utf8(ast_text.clone())) {
        let f = AstFormat::ALL[cfg.format];
        match pipeline::ast_from_text(&t, f) {
            Ok(back) => if !pipeline::ast_eq(&orig, &back) { ctx.violation(&format!("cli/{}/ast-file-is-a-different-program", ext), "the AST file written by `fml parse` does not denote the parsed program", describe("parse", &p, &args)) },
            Err(e) => {
                let recursion = e.to_lowercase().contains("recursion limit");
                if !recursion { ctx.violation(&format!("cli/{}/ast-file-unreadable", ext), "the AST file written by `fml parse` cannot be read back", describe("parse", &p, &args)) }
            }
        }
    }
    // ---- compile
    let ast_file_for_compile: String = match &ast_path { Some(pth) => pth.to_str().unwrap().to_string(), None => { cli::write_file(&dir, &format!("fromstdout.{}", ext), &ast_text); format!("fromstdout.{}", ext) } };
    let mut args: Vec<String> = vec!["compile".into()];
    let mut compile_stdin: Option<Vec<u8>> = None;
    let in_stem: String;
    match cfg.compile_in {
        0 => {
            // inference needs the extension: a.txt cannot be inferred, so name the format there
            args.push(ast_file_for_compile.clone());
            if ast_file_for_compile.ends_with(".txt") { args.extend(["--input-format".into(), alias.into()]) }
            in_stem = PathBuf::from(&ast_file_for_compile).file_stem().unwrap().to_str().unwrap().to_string();
        }
        1 => { args.push(ast_file_for_compile.clone()); args.extend(["--input-format".into(), alias.into()]); in_stem = PathBuf::from(&ast_file_for_compile).file_stem().unwrap().to_str().unwrap().to_string() }
        _ => { args.extend(["--input-format".into(), alias.into()]); compile_stdin = Some(ast_text.clone()); in_stem = "ast".to_string() }
    }
    let mut bc_path: Option<PathBuf> = None;
    match cfg.compile_out {
        0 => { let pth = dir.join("out.bc"); stale(&pth); args.extend(["-o".into(), "out.bc".into()]); bc_path = Some(pth) }
        1 => { let _ = std::fs::create_dir_all(dir.join("bcd")); let pth = dir.join("bcd").join(format!("{}.bc", in_stem)); stale(&pth); args.extend(["-o".into(), "bcd/".into()]); bc_path = Some(pth) }
        _ => {}
    }
    let a: Vec<&str> = args.iter().map(|s| s.as_str()).collect();
    let c = cli::run(&exe, &a, compile_stdin.as_deref(), Some(&dir), &[], t);
    ctx.count("cli_stages", 1);
    if cfg.compile_out == 1 { if let Some(f) = fresh_file(&dir.join("bcd")) { bc_path = Some(f) } }
    if !c.ok() {
        let recursion = c.err().to_lowercase().contains("recursion limit");
        let run_compiles = expected_bytes.is_ok();
        if recursion { ctx.violation(&format!("stage-refusal/{}/recursion-limit/ast-depth>={}", ext, k1_threshold(AstFormat::ALL[cfg.format])), "`fml compile` refuses an AST that `fml parse` wrote", describe("compile", &c, &args)) }
        else if run_compiles { ctx.violation("cli/compile-stage-refuses", "`fml compile` refuses a program that `fml run` compiles", describe("compile", &c, &args)) }
        return;
    }
    let bytes: Vec<u8> = match &bc_path { Some(pth) => std::fs::read(pth).unwrap_or_default(), None => c.stdout.clone() };
    match expected_bytes {
        Ok(exp) => if &bytes != exp { ctx.violation("cli/compiled-file-differs-from-run", "the bytes written by the staged `fml compile` are not the bytes `fml run` compiles", describe("compile", &c, &args)) },
        Err(_) => ctx.violation("cli/compile-accepts-what-run-rejects", "the staged compile accepts a program `fml run` does not compile", describe("compile", &c, &args)),
    }
    // ---- execute
    let bc_file = match &bc_path { Some(pth) => pth.clone(), None => cli::write_file(&dir, "fromstdout.bc", &bytes) };
    let e = if cfg.execute_stdin { cli::run(&exe, &["execute"], Some(&bytes), Some(&dir), &[], t) } else { cli::run(&exe, &["execute", bc_file.to_str().unwrap()], None, Some(&dir), &[], t) };
    ctx.count("cli_stages", 1);
    ctx.count("cli_pipelines", 1);
    if e.stdout != base.stdout || e.code != base.code || e.signal.is_some() {
        let mut d = describe("execute", &e, &vec!["execute".to_string()]);
        d["stdout"] = json!(e.out().chars().take(300).collect::<String>());
        d["run_stdout"] = json!(base.out().chars().take(300).collect::<String>());
        d["run_exit"] = json!(base.code);
        ctx.violation("cli/staged-output-or-status-differs-from-run", "the staged pipeline's output or exit status differs from `fml run`", d);
    }
}

fn cli_programs() -> Vec<String> {
    let mut v: Vec<String> = vec![
        "print(\"hello\\n\")", "", "1", "null", "print(\"é ~ λ 👍 \\\" \\\\ \\t\\n\", -2147483648)",
        "let x = 1; let y = x + 2 * 3 - 4 / 2 % 3; print(\"~ ~\\n\", x, y)",
        "function f(a, b) -> if a < b then a else b; print(\"~\\n\", f(1, 2)); print(\"~\\n\", f(2, 1))",
        "let o = object extends 5 begin let a = 1; function m(p) -> this.a + p; function +(o) -> 42 end; print(\"~ ~ ~\\n\", o.m(1), o + 1, o)",
        "let a = array(3, begin print(\"e\"); 7 end); a[1] <- null; print(\"~\\n\", a)",
        "let i = 0; while i < 3 do begin print(\"~;\", i); i <- i + 1 end",
        "print(\"a\\n\"); nosuch; print(\"b\\n\")", "print(\"a\\n\"); 1 / 0", "print(\"x~y\\n\")", "f(1)",
        "begin let x = 1; begin let x = 2; print(\"~\", x) end; print(\"~\\n\", x) end",
        "print(\"#: - [ ] { } , & * ! | > ' % @ ` ~\\n\", true)", "print(\"  leading and trailing  \")", "print(\"line1\nline2\n\")",
        "let this = 1; print(\"~\\n\", this)", "object begin function print(x) -> x end.print(1)", "print(\"~\\n\", if false then 1)",
        "print(\"~ ~ ~\\n\", null == null, 1 != true, true & false)",
    ].into_iter().map(|s| s.to_string()).collect();
    for pad in [0usize, 3, 5, 6] { v.push(big_program(pad, 200 + 7 * pad)) }
    v
}

fn configurations(ctx: &mut Ctx) {
    ctx.stage("CLI configurations (processes)");
    let exe = ctx.exe.clone();
    for src in cli_programs() {
        // single-stage deviations from the default pipeline (quick); full product (thorough)
        let mut cfgs: Vec<Config> = vec![];
        for format in 0..3 {
            let d = default_config(format);
            cfgs.push(d.clone());
            if ctx.quick() {
                cfgs.push(Config { parse_stdin: true, ..d.clone() });
                for po in 1..=5 { cfgs.push(Config { parse_out: po, format_alias: po, ..d.clone() }) }
                cfgs.push(Config { parse_stdin: true, parse_out: 3, ..d.clone() });
                cfgs.push(Config { stale_outputs: true, ..d.clone() });
                for ci in 1..=2 { cfgs.push(Config { compile_in: ci, format_alias: ci + 1, ..d.clone() }) }
                for co in 1..=2 { cfgs.push(Config { compile_out: co, ..d.clone() }) }
                cfgs.push(Config { execute_stdin: true, ..d.clone() });
            } else {
                for ps in [false, true] { for po in 0..=5 { for st in [false, true] { for ci in 0..=2 { for co in 0..=2 { for es in [false, true] {
                    cfgs.push(Config { format, parse_stdin: ps, parse_out: po, format_alias: po + ci, stale_outputs: st, compile_in: ci, compile_out: co, execute_stdin: es });
                } } } } } }
            }
        }
        let mut base: Option<(CliResult, Result<Vec<u8>, (String, String)>)> = None;
        for cfg in cfgs {
            if ctx.take().is_none() { continue }
            if base.is_none() {
                let f = cli::write_file(&ctx.scratch, "base.fml", src.as_bytes());
                base = Some((cli::simple(&exe, &["run", f.to_str().unwrap()]), pipeline::compile_source(&src)));
            }
            let (b, eb) = base.clone().unwrap();
            ctx.describe(&format!("{:?}\n{}", cfg, src));
            run_pipeline(ctx, &src, &cfg, &b, &eb);
            ctx.count("programs", 1);
            ctx.nontrivial(format!("{:?}{}", cfg, src).as_bytes());
        }
    }
    // file-size sweep: three families (strings / globals table / class member table) whose bytecode and
    // AST files straddle the 8 KiB buffer at many alignments, default pipeline of each format in turn
    ctx.stage("file-size sweep through the default pipelines (processes)");
    let step = if ctx.quick() { 3 } else { 1 };
    for kind in 0..3usize {
        for n in (300..=560usize).step_by(step) {
            if ctx.take().is_none() { continue }
            let (src, _) = super::bcprops::sweep_family(kind, n);
            let f = cli::write_file(&ctx.scratch, "base.fml", src.as_bytes());
            let b = cli::simple(&exe, &["run", f.to_str().unwrap()]);
            let eb = pipeline::compile_source(&src);
            let cfg = default_config(n % 3);
            ctx.describe(&format!("{:?}\nsweep family {} n = {}", cfg, kind, n));
            run_pipeline(ctx, &src, &cfg, &b, &eb);
            ctx.count("programs", 1);
            ctx.nontrivial(&[kind as u8, (n % 256) as u8, (n / 256) as u8]);
        }
    }
    // the repository's wrapper script staging `run` through JSON
    ctx.stage("the `fml` wrapper script");
    let root = std::env::var("VERIF_REPO").unwrap_or("/repo".to_string());
    let wrapper = PathBuf::from(&root).join("fml");
    for (i, src) in cli_programs().into_iter().enumerate() {
        if i % 3 != 0 && ctx.quick() { continue }
        if ctx.take().is_none() { continue }
        let dir = ctx.scratch.join("wrap"); let _ = std::fs::remove_dir_all(&dir); let _ = std::fs::create_dir_all(&dir);
        cli::write_file(&dir, "w.fml", src.as_bytes());
        let base = cli::run(&exe, &["run", "w.fml"], None, Some(&dir), &[], Duration::from_secs(30));
        let e = exe.to_str().unwrap();
        let out = std::process::Command::new("bash").arg(wrapper.to_str().unwrap()).args(["run", "w.fml"]).current_dir(&dir)
            .env("PARSER", e).env("COMPILER", e).env("INTERPRETER", e).env("RUST_BACKTRACE", "0").output();
        ctx.count("cli_pipelines", 1); ctx.count("programs", 1);
        if let Ok(o) = out {
            let run_ok = base.code == Some(0);
            if o.stdout != base.stdout || (o.status.success() != run_ok) {
                ctx.violation("cli/wrapper-run-differs", "`PARSER=.. COMPILER=.. INTERPRETER=.. ./fml run` differs from `fml run`",
                    json!({"text": src.chars().take(300).collect::<String>(), "wrapper_stdout": String::from_utf8_lossy(&o.stdout).chars().take(300).collect::<String>(), "run_stdout": base.out().chars().take(300).collect::<String>(),
                           "wrapper_ok": o.status.success(), "run_exit": base.code, "wrapper_stderr": String::from_utf8_lossy(&o.stderr).chars().take(300).collect::<String>()}));
            }
        }
    }
}

pub fn run(ctx: &mut Ctx) {
    shapes(ctx);
    strings(ctx);
    nesting(ctx);
    configurations(ctx);
}
