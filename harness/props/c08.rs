//! C08 — serialized output is complete however the sink chunks writes.
//! Environment answers are enumerated by deviations from "accept everything": 0 deviations;
//! uniform limit k = 1..W; one deviation at every write call (every shorter acceptance incl. 0,
//! EINTR, hard error); thorough: all pairs. Oracle: Ok => received bytes == in-memory bytes.

use serde_json::json;
use super::super::cli;
use super::super::explore::{for_each_owned, Ctx};
use super::super::pipeline;
use super::super::sinks::{Answer, ScriptedSink};
use super::super::syntax::*;
use super::super::universes::sem;
use crate::bytecode::program::Program;

fn drive(p: &Program, via_named_sink: bool, limit: Option<usize>, devs: Vec<(usize, Answer)>) -> (Result<(), String>, Vec<u8>, Vec<usize>) {
    let sink = ScriptedSink::new(limit, devs);
    let r = if via_named_sink { pipeline::serialize_via_named_sink(p, Box::new(sink.clone())) } else { let mut s = sink.clone(); pipeline::serialize_into(p, &mut s) };
    let st = sink.0.borrow();
    (r, st.received.clone(), st.requests.clone())
}

fn judge(ctx: &mut Ctx, text: &str, reference: &[u8], via: bool, limit: Option<usize>, devs: &[(usize, Answer)], r: &Result<(), String>, got: &[u8]) {
    ctx.count("schedules", 1);
    match r {
        Ok(()) => {
            ctx.count("schedules_ok", 1);
            if got != reference {
                ctx.violation(if via { "sink/silent-loss/named-sink" } else { "sink/silent-loss/serialize" }, "serialization reported success although the sink did not receive the complete byte sequence",
                    json!({"text": text, "through": if via { "main.rs NamedSink" } else { "Program::serialize" }, "uniform_limit": limit, "deviations": format!("{:?}", devs),
                           "expected_bytes": reference.len(), "received_bytes": got.len()}));
            }
        }
        Err(_) => ctx.count("schedules_error_reported", 1),
    }
}

fn schedules(ctx: &mut Ctx, text: &str, pairs: bool) {
    let ast = match pipeline::parse(text) { Ok(a) => a, Err(_) => return };
    let prog = match pipeline::compile(&ast) { Ok(p) => p, Err(_) => return };
    let reference = match pipeline::serialize(&prog) { Ok(b) => b, Err(_) => return };
    ctx.count("programs", 1);
    ctx.nontrivial(text.as_bytes());
    for via in [false, true] {
        // 0 deviations: learn the request sequence
        let (r0, got0, reqs) = drive(&prog, via, None, vec![]);
        judge(ctx, text, &reference, via, None, &[], &r0, &got0);
        let w = reqs.iter().cloned().max().unwrap_or(1);
        ctx.max("write_calls_per_program", reqs.len() as u64);
        for k in 1..=w.min(64) {
            let (r, got, _) = drive(&prog, via, Some(k), vec![]);
            judge(ctx, text, &reference, via, Some(k), &[], &r, &got);
        }
        // one deviation at each call
        let mut single: Vec<(usize, Answer)> = vec![];
        for (i, len) in reqs.iter().enumerate() {
            let shorter: Vec<usize> = if *len <= 6 { (0..*len).collect() } else { vec![0, 1, 2, len / 2, len - 1] };
            for j in shorter { single.push((i, Answer::Accept(j))) }
            single.push((i, Answer::Interrupted));
            single.push((i, Answer::Error));
        }
        for d in &single {
            let (r, got, _) = drive(&prog, via, None, vec![*d]);
            judge(ctx, text, &reference, via, None, &[*d], &r, &got);
        }
        if pairs && reqs.len() <= 40 {
            for a in &single { for b in &single {
                if b.0 <= a.0 { continue }
                if matches!(a.1, Answer::Error) { continue }
                let (r, got, _) = drive(&prog, via, None, vec![*a, *b]);
                judge(ctx, text, &reference, via, None, &[*a, *b], &r, &got);
            } }
        }
    }
    if ctx.want_sample() { ctx.sample(json!({"text": text, "bytes": reference.len()})) }
}

fn string_programs() -> Vec<String> {
    let mut v = vec![];
    for len in (0..=40).chain([1020, 1023, 1024, 1025, 3000, 8190, 8192, 8195]) {
        v.push(format!("print(\"{}\")", "x".repeat(len)));
        // a raw line break inside the string constant (the lexer admits it), at the front, middle, end
        for at in [0usize, len / 2, len] {
            if at > len { continue }
            let mut s = "y".repeat(len);
            s.insert(at.min(s.len()), '\n');
            v.push(format!("print(\"{}\")", s));
        }
    }
    // one method whose code is far longer than any plausible internal block size
    for n in [40usize, 130, 600] {
        let body: String = (0..n).map(|i| format!("print(\"row ~ of ~\\n\", {}, {})", i, n)).collect::<Vec<_>>().join("; ");
        v.push(body.clone());
        v.push(format!("function long(a) -> begin {} end; long(1)", body));
        v.push(format!("let o = object begin function long(a) -> begin {} end end; o.long(1)", body));
    }
    v
}

fn processes(ctx: &mut Ctx) {
    ctx.stage("real stdout / files (processes)");
    let exe = ctx.exe.clone();
    for (i, src) in string_programs().into_iter().enumerate() {
        if i % (if ctx.quick() { 5 } else { 1 }) != 0 { continue }
        if ctx.take().is_none() { continue }
        let expected = match pipeline::compile_source(&src) { Ok(b) => b, Err(_) => continue };
        let f = cli::write_file(&ctx.scratch, "s.fml", src.as_bytes());
        let ast = ctx.scratch.join("s.json");
        let _ = std::fs::remove_file(&ast); let _ = std::fs::remove_file(ctx.scratch.join("s.bc"));
        let p = cli::simple(&exe, &["parse", f.to_str().unwrap(), "-o", ast.to_str().unwrap()]);
        let out = ctx.scratch.join("s.bc");
        let c1 = cli::simple(&exe, &["compile", ast.to_str().unwrap(), "-o", out.to_str().unwrap()]);
        let c2 = cli::simple(&exe, &["compile", ast.to_str().unwrap()]); // stdout is a pipe
        // stdout redirected to a file by a shell
        let redirected = ctx.scratch.join("r.bc");
        let sh = std::process::Command::new("sh").arg("-c")
            .arg(format!("'{}' compile '{}' > '{}'", exe.display(), ast.display(), redirected.display()))
            .env("RUST_BACKTRACE", "0").output();
        ctx.count("cli_pipelines", 3); ctx.count("programs", 1);
        let file_bytes = std::fs::read(&out).unwrap_or_default();
        let redirected_bytes = std::fs::read(&redirected).unwrap_or_default();
        let sh_ok = sh.as_ref().map(|o| o.status.success()).unwrap_or(false);
        for (what, ok, bytes) in [("-o file", c1.ok(), &file_bytes), ("stdout pipe", c2.ok(), &c2.stdout), ("stdout redirected to a file", sh_ok, &redirected_bytes)] {
            if ok && bytes != &expected {
                ctx.violation(&format!("sink/silent-loss/process/{}", what.replace(' ', "-")), "`fml compile` exits 0 but the bytes it delivered are not the complete program",
                    json!({"text": if src.len() > 300 { format!("{}... ({} chars)", &src[..120], src.len()) } else { src.clone() }, "target": what, "expected_bytes": expected.len(), "received_bytes": bytes.len(),
                           "cli": "fml compile x.json > out.bc   versus   fml compile x.json -o out.bc"}));
            }
        }
    }
}

/// programs whose single method body is about 70 KB of code: only the uniform limits
/// {1, 2, 3, 7, 64, 511, 4095, 65535} and one deviation at the first/middle/last call are enumerated
/// (the full single-deviation set is quadratic in the number of write calls)
fn huge(ctx: &mut Ctx) {
    ctx.stage("in-process sinks: 70 KB method bodies (reduced schedule set)");
    let body: String = (0..6500).map(|i| format!("print(\"~ ~\", {}, {})", i % 9, i % 7)).collect::<Vec<_>>().join("; ");
    for text in [body.clone(), format!("function big(x) -> begin {} end; big(1)", body)] {
        if ctx.take().is_none() { continue }
        let ast = match pipeline::parse(&text) { Ok(a) => a, Err(_) => continue };
        let prog = match pipeline::compile(&ast) { Ok(p) => p, Err(_) => continue };
        let reference = match pipeline::serialize(&prog) { Ok(b) => b, Err(_) => continue };
        ctx.count("programs", 1);
        ctx.max("largest_program_bytes", reference.len() as u64);
        let short = format!("{}... ({} chars, {} bytes of bytecode)", &text[..60], text.len(), reference.len());
        ctx.nontrivial(short.as_bytes());
        for via in [false, true] {
            let (r0, got0, reqs) = drive(&prog, via, None, vec![]);
            judge(ctx, &short, &reference, via, None, &[], &r0, &got0);
            for k in [1usize, 2, 3, 7, 64, 511, 4095, 65535] {
                let (r, got, _) = drive(&prog, via, Some(k), vec![]);
                judge(ctx, &short, &reference, via, Some(k), &[], &r, &got);
            }
            for i in [0, reqs.len() / 2, reqs.len().saturating_sub(1)] {
                for a in [Answer::Accept(0), Answer::Accept(1), Answer::Interrupted, Answer::Error] {
                    let (r, got, _) = drive(&prog, via, None, vec![(i, a)]);
                    judge(ctx, &short, &reference, via, None, &[(i, a)], &r, &got);
                }
            }
        }
    }
}

pub fn run(ctx: &mut Ctx) {
    huge(ctx);
    ctx.stage("in-process sinks: string programs");
    for src in string_programs() {
        if ctx.take().is_none() { continue }
        schedules(ctx, &src, false);
    }
    let n = if ctx.quick() { 2 } else { 3 };
    let mut g = sem::grammar();
    g.prepare(n);
    ctx.stage(&format!("in-process sinks: U-SEM(n<={})", n));
    for_each_owned(ctx, &g, sem::PROG, 1, n, |ctx, _s, prog| {
        let pairs = !ctx.quick() && ctx.index % 97 == 0;
        schedules(ctx, &show(&sem::program(&prog, (ctx.index % 3) as usize)), pairs);
    });
    if !ctx.quick() {
        ctx.stage("in-process sinks: pairs of deviations on small programs");
        for src in ["1", "print(\"a\\nb\")", "let x = 1; x", "function f(a) -> a; f(1)", "object begin let a = 1 end"] {
            if ctx.take().is_none() { continue }
            schedules(ctx, src, true);
        }
    }
    processes(ctx);
}
