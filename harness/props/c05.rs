//! C05 — the VM gives any conforming bytecode its documented instruction semantics.
//! (a) layout transformations (1 and 2 deviations from the compiler's layout) of real compiler
//! output: real VM == abstract machine M == untransformed behaviour; (b) U-BUILTIN: receiver kind
//! x method name x argument kinds as directly encoded programs; (c) print formats at bytecode
//! level; (d) hand-shaped programs for documented behaviours the compiler never exercises.

use serde_json::json;
use super::super::codec::{self, Const, Ins, Prog};
use super::super::explore::{for_each_owned, Ctx};
use super::super::layout;
use super::super::pipeline;
use super::super::refsem::{self, Status};
use super::super::refvm;
use super::super::syntax::*;
use super::super::universes::{pair, sem};
use super::c15;

/// run abstract program x on the real loader + VM and on M; compare
pub fn conform(ctx: &mut Ctx, origin: &str, x: &Prog, describe: &dyn Fn() -> serde_json::Value) -> Option<(bool, String)> {
    let m = refvm::run(x, 20_000);
    ctx.count("programs", 1);
    if m.status == Status::Unspec { ctx.count("unspecified", 1); ctx.count(&format!("unspecified:{}", m.reason.split_whitespace().next().unwrap_or("?")), 1); return None }
    ctx.count("states", m.steps); ctx.count("transitions", m.steps.saturating_sub(1));
    let bytes = codec::write(x);
    let real = match pipeline::load(&bytes) {
        Ok(p) => pipeline::execute(&p),
        Err(e) => pipeline::RunResult { ok: false, out: String::new(), err: format!("loader: {}", e) },
    };
    ctx.count("traces_validated_against_impl", 1);
    let expected_ok = m.status == Status::Ok;
    if real.ok != expected_ok || real.out != m.out {
        let key = if real.ok != expected_ok { if expected_ok { "vm/reference-ok-vm-fails" } else { "vm/reference-fails-vm-ok" } } else { "vm/output-differs" };
        ctx.violation(&format!("{}/{}", key, origin.split(':').next().unwrap_or(origin)), "the VM's behaviour differs from the abstract machine of the instruction documentation", json!({
            "origin": origin, "case": describe(), "expected": {"status": if expected_ok { "ok" } else { "fail" }, "stdout": m.out, "reason": m.reason},
            "actual": {"status": if real.ok { "ok" } else { "fail" }, "stdout": real.out, "error": real.err}, "bytes_hex": codec::hex(&bytes), "cli": "fml execute <file.bc>"}));
    }
    Some((real.ok, real.out))
}

fn transformed(ctx: &mut Ctx, universe: &str, stmts: &[E], pairs: bool) {
    let text = show(stmts);
    ctx.describe(&text);
    let bytes = match pipeline::compile_source(&text) { Ok(b) => b, Err(_) => { ctx.count("compile_rejected", 1); return } };
    let base = match codec::read(&bytes) { Ok(p) => p, Err(_) => return };
    // M on the compiler's own layout versus R on the source. A disagreement is NOT a C05 violation: if the
    // real VM agrees with M (checked below for every layout), the compiler mistranslated the program
    // (C01's business); if it does not, the VM-vs-M comparison reports it. It is counted, so that a
    // defect of one of the two harness models would be noticed in the evidence of the unchanged tree.
    let r = refsem::run(stmts);
    let m0 = refvm::run(&base, 20_000);
    if r.status != Status::Unspec && m0.status != Status::Unspec && (r.status != m0.status || r.out != m0.out) {
        ctx.count("compiled_program_meaning_differs_from_source_semantics(M_vs_R)", 1);
    }
    let mut reference: Option<(bool, String)> = None;
    let t = text.clone();
    for k in 0..layout::N_KNOBS {
        let x = match layout::apply(&base, k) { Some(x) => x, None => continue };
        let name = layout::knob_name(k);
        ctx.count(&format!("knob:{}", name), 1);
        let got = conform(ctx, &format!("layout:{}", name), &x, &|| json!({"text": t, "transformation": name}));
        // reference-free relation: output unchanged by the transformation
        if let Some(g) = got {
            match &reference {
                None => if k == 0 { reference = Some(g) },
                Some(rf) => if *rf != g {
                    ctx.violation(&format!("vm/layout-changes-behaviour/{}", name), "a meaning-preserving layout transformation changes the program's behaviour",
                        json!({"text": t, "transformation": name, "before": {"ok": rf.0, "stdout": rf.1}, "after": {"ok": g.0, "stdout": g.1}, "bytes_hex": codec::hex(&codec::write(&x))}));
                },
            }
        }
        if pairs {
            for k2 in (k + 1)..layout::N_KNOBS {
                if k == 0 { continue }
                let y = match layout::apply(&x, k2) { Some(y) => y, None => continue };
                let n2 = layout::knob_name(k2);
                let got = conform(ctx, &format!("layout:{}+{}", name, n2), &y, &|| json!({"text": t, "transformations": [name, n2]}));
                if let (Some(g), Some(rf)) = (got, &reference) { if *rf != g {
                    ctx.violation(&format!("vm/layout-changes-behaviour/{}+{}", name, n2), "a pair of meaning-preserving layout transformations changes the program's behaviour",
                        json!({"text": t, "transformations": [name, n2], "before": {"ok": rf.0, "stdout": rf.1}, "after": {"ok": g.0, "stdout": g.1}}));
                } }
            }
        }
    }
    if !r.out.is_empty() { ctx.nontrivial(text.as_bytes()) }
    if ctx.want_sample() { ctx.sample(json!({"universe": universe, "text": text, "transformations": layout::N_KNOBS})) }
}

// ---------------------------------------------------------------- U-BUILTIN

struct Pool { c: Vec<Const> }
impl Pool {
    fn add(&mut self, c: Const) -> u16 { if let Some(i) = self.c.iter().position(|x| *x == c) { return i as u16 } self.c.push(c); (self.c.len() - 1) as u16 }
}

fn emit_value(v: &str, pool: &mut Pool, code: &mut Vec<Ins>) {
    match v {
        "null" => code.push(Ins::Lit(pool.add(Const::Null))),
        "true" => code.push(Ins::Lit(pool.add(Const::Bool(true)))),
        "false" => code.push(Ins::Lit(pool.add(Const::Bool(false)))),
        "arr" => { code.push(Ins::Lit(pool.add(Const::Int(2)))); code.push(Ins::Lit(pool.add(Const::Int(5)))); code.push(Ins::Array) }
        "obj" => {
            code.push(Ins::Lit(pool.add(Const::Null))); code.push(Ins::Lit(pool.add(Const::Int(3))));
            let nm = pool.add(Const::Str("f".into())); let sl = pool.add(Const::Slot(nm)); let cl = pool.add(Const::Class(vec![sl]));
            code.push(Ins::Object(cl));
        }
        _ if v.starts_with("ext:") => { emit_value(&v[4..], pool, code); let cl = pool.add(Const::Class(vec![])); code.push(Ins::Object(cl)) }
        _ if v.starts_with("ext2:") => { emit_value(&v[5..], pool, code); let cl = pool.add(Const::Class(vec![])); code.push(Ins::Object(cl)); code.push(Ins::Object(cl)) }
        _ => { let n: i32 = v[1..].parse().unwrap(); code.push(Ins::Lit(pool.add(Const::Int(n)))) }
    }
}

fn builtins(ctx: &mut Ctx) {
    ctx.stage("U-BUILTIN: receiver kind x method name x argument kinds");
    let sym = ["+", "-", "*", "/", "%", "<", "<=", ">", ">=", "==", "!=", "&", "|"];
    let feeny = ["add", "sub", "mul", "div", "mod", "lt", "le", "gt", "ge", "eq", "neq", "and", "or"];
    let mut names: Vec<&str> = sym.to_vec(); names.extend(feeny); names.extend(["get", "set", "nosuch", ""]);
    let vals = ["null", "i-1", "i0", "i7", "true", "false", "arr", "obj"];
    let mut recvs: Vec<String> = vals.iter().map(|s| s.to_string()).collect();
    for v in ["i7", "true", "arr", "obj", "null"] { recvs.push(format!("ext:{}", v)); recvs.push(format!("ext2:{}", v)) }
    let argvals = ["null", "i0", "i1", "true", "arr", "obj", "i-2147483648"];
    for recv in &recvs { for name in &names { for k in 0..=(if ctx.quick() { 2 } else { 3 }) {
        let combos = argvals.len().pow(k as u32);
        for combo in 0..combos {
            if ctx.take().is_none() { continue }
            let mut pool = Pool { c: vec![] };
            let main = pool.add(Const::Str("main".into()));
            let mut code = vec![];
            emit_value(recv, &mut pool, &mut code);
            let mut c = combo; let mut args = vec![];
            for _ in 0..k { let a = argvals[c % argvals.len()]; c /= argvals.len(); args.push(a); emit_value(a, &mut pool, &mut code) }
            let nm = pool.add(Const::Str(name.to_string()));
            code.push(Ins::CallSlot(nm, (k + 1) as u8));
            let fmt = pool.add(Const::Str("<~>".into()));
            code.push(Ins::Print(fmt, 1));
            code.push(Ins::Return);
            let mut consts = pool.c.clone();
            consts.push(Const::Method { name: main, arity: 0, locals: 0, code });
            let entry = (consts.len() - 1) as u16;
            let x = Prog { consts, globals: vec![], entry };
            let (rv, nv, av) = (recv.clone(), name.to_string(), args.join(","));
            conform(ctx, "builtin", &x, &|| json!({"receiver": rv, "method": nv, "arguments": av}));
            ctx.nontrivial(format!("{}.{}({})", recv, name, args.join(",")).as_bytes());
        }
    } } }
}

// ---------------------------------------------------------------- print formats at bytecode level

fn formats(ctx: &mut Ctx) {
    let len = if ctx.quick() { 4 } else { 5 };
    ctx.stage(&format!("U-FMT(L={}) bytecode level", len));
    let mut all = c15::strings(len);
    all.extend(["\\t", "\\r", "\\x", "a\\", "~\\", "\\ñ"].iter().map(|s| s.to_string()));
    for s in all {
        for k in 0..4u8 {
            if ctx.take().is_none() { continue }
            let mut consts = vec![Const::Str("main".into()), Const::Str(s.clone())];
            let mut code = vec![];
            for i in 0..k { consts.push(Const::Int(10 + i as i32)); code.push(Ins::Lit((consts.len() - 1) as u16)) }
            code.push(Ins::Print(1, k));
            // the value of print is null: show it
            consts.push(Const::Str("|~|".into()));
            code.push(Ins::Print((consts.len() - 1) as u16, 1));
            code.push(Ins::Return);
            consts.push(Const::Method { name: 0, arity: 0, locals: 0, code });
            let entry = (consts.len() - 1) as u16;
            let x = Prog { consts, globals: vec![], entry };
            let ss = s.clone();
            conform(ctx, "format", &x, &|| json!({"format": ss, "arguments": k}));
            ctx.nontrivial(format!("{}#{}", s, k).as_bytes());
        }
    }
}

// ---------------------------------------------------------------- hand-shaped programs

fn hand_shaped(ctx: &mut Ctx) {
    ctx.stage("hand-shaped programs (documented behaviours the compiler never emits)");
    let s = |x: &str| Const::Str(x.into());
    let mut progs: Vec<(&str, Prog)> = vec![];
    // global read before any assignment yields null; globals declared after the entry in the pool
    progs.push(("global read before assignment", Prog { consts: vec![s("main"), s("g"), s("<~>"),
        Const::Method { name: 0, arity: 0, locals: 0, code: vec![Ins::GetGlobal(1), Ins::Print(2, 1), Ins::Drop, Ins::GetGlobal(1), Ins::Return] }, Const::Slot(1)], globals: vec![4], entry: 3 }));
    // function found by NAME: two methods with different names, call names the second; constant indices do not matter
    progs.push(("function lookup by name", Prog { consts: vec![s("main"), s("f"), s("g"), s("<~>"), Const::Int(1), Const::Int(2),
        Const::Method { name: 1, arity: 0, locals: 0, code: vec![Ins::Lit(4), Ins::Return] }, Const::Method { name: 2, arity: 0, locals: 0, code: vec![Ins::Lit(5), Ins::Return] },
        Const::Method { name: 0, arity: 0, locals: 0, code: vec![Ins::Call(2, 0), Ins::Print(3, 1), Ins::Return] }], globals: vec![7, 6], entry: 8 }));
    // a label named like a function and like a global; backward and forward jumps; branch on int / object / array / false / null
    for (i, cond) in [Const::Int(0), Const::Bool(false), Const::Null, Const::Bool(true), Const::Int(-1)].iter().enumerate() {
        progs.push(("branch truthiness of a literal", Prog { consts: vec![s("main"), s("f"), s("taken\\n"), s("not taken\\n"), cond.clone(),
            Const::Method { name: 0, arity: 0, locals: 0, code: vec![Ins::Lit(4), Ins::Branch(1), Ins::Print(3, 0), Ins::Goto(0), Ins::Label(1), Ins::Print(2, 0), Ins::Label(0), Ins::Return] },
            Const::Method { name: 1, arity: 0, locals: 0, code: vec![Ins::Lit(4), Ins::Return] }, Const::Slot(1)], globals: vec![6, 7], entry: 5 }));
        let _ = i;
    }
    progs.push(("branch on array and object", Prog { consts: vec![s("main"), s("A"), s("B"), s("x"), Const::Int(0), Const::Null, Const::Class(vec![]),
        Const::Method { name: 0, arity: 0, locals: 0, code: vec![Ins::Lit(4), Ins::Lit(4), Ins::Array, Ins::Branch(1), Ins::Print(3, 0), Ins::Drop, Ins::Label(1),
            Ins::Lit(5), Ins::Object(6), Ins::Branch(2), Ins::Print(3, 0), Ins::Drop, Ins::Label(2), Ins::Lit(4), Ins::Return] }], globals: vec![], entry: 7 }));
    // nested calls: frames are restored; arguments land in slots 0..n-1, locals after them, all null initially
    progs.push(("frame layout: arguments then null locals", Prog { consts: vec![s("main"), s("f"), s("<~ ~ ~ ~>"), Const::Int(1), Const::Int(2),
        Const::Method { name: 1, arity: 2, locals: 2, code: vec![Ins::GetLocal(0), Ins::GetLocal(1), Ins::GetLocal(2), Ins::GetLocal(3), Ins::Print(2, 4), Ins::Return] },
        Const::Method { name: 0, arity: 0, locals: 0, code: vec![Ins::Lit(3), Ins::Lit(4), Ins::Call(1, 2), Ins::Return] }], globals: vec![5], entry: 6 }));
    // method frame: slot 0 receiver, then arguments; object fields: first slot = deepest value
    progs.push(("method frame and field order", Prog { consts: vec![s("main"), s("a"), s("b"), s("m"), s("<~ ~ ~ ~>"), Const::Int(1), Const::Int(2), Const::Int(3), Const::Null,
        Const::Slot(1), Const::Slot(2),
        Const::Method { name: 3, arity: 2, locals: 1, code: vec![Ins::GetLocal(0), Ins::GetSlot(1), Ins::GetLocal(0), Ins::GetSlot(2), Ins::GetLocal(1), Ins::GetLocal(2), Ins::Print(4, 4), Ins::Return] },
        Const::Class(vec![9, 11, 10]),
        Const::Method { name: 0, arity: 0, locals: 0, code: vec![Ins::Lit(8), Ins::Lit(5), Ins::Lit(6), Ins::Object(12), Ins::Lit(7), Ins::CallSlot(3, 2), Ins::Return] }], globals: vec![], entry: 13 }));
    // set local / set global leave the value on the stack; set slot pushes the value
    progs.push(("set instructions keep the value", Prog { consts: vec![s("main"), s("g"), s("<~ ~ ~>"), Const::Int(5), Const::Null, s("f"), Const::Slot(5), Const::Class(vec![6]), Const::Slot(1),
        Const::Method { name: 0, arity: 0, locals: 1, code: vec![Ins::Lit(3), Ins::SetLocal(0), Ins::Lit(3), Ins::SetGlobal(1), Ins::Lit(4), Ins::Lit(4), Ins::Object(7), Ins::Lit(3), Ins::SetSlot(5), Ins::Print(2, 3), Ins::Return] }],
        globals: vec![8], entry: 9 }));
    // entry in the middle of the pool with return; unreachable code after return
    progs.push(("entry in the middle ending in return", Prog { consts: vec![s("f"), Const::Int(1), Const::Method { name: 0, arity: 0, locals: 0, code: vec![Ins::Lit(1), Ins::Return] }, s("main"), s("<~>"),
        Const::Method { name: 3, arity: 0, locals: 0, code: vec![Ins::Call(0, 0), Ins::Print(4, 1), Ins::Return, Ins::Print(4, 1), Ins::Drop] }, s("g"),
        Const::Method { name: 6, arity: 0, locals: 0, code: vec![Ins::Print(4, 0), Ins::Return] }], globals: vec![2, 7], entry: 5 }));
    // recursion with frames: factorial-like through Feeny names
    progs.push(("recursion with Feeny built-in names", Prog { consts: vec![s("main"), s("fact"), s("eq"), s("mul"), s("sub"), s("base"), s("end"), s("<~>"), Const::Int(0), Const::Int(1), Const::Int(5),
        Const::Method { name: 1, arity: 1, locals: 0, code: vec![Ins::GetLocal(0), Ins::Lit(8), Ins::CallSlot(2, 2), Ins::Branch(5), Ins::GetLocal(0), Ins::GetLocal(0), Ins::Lit(9), Ins::CallSlot(4, 2), Ins::Call(1, 1), Ins::CallSlot(3, 2), Ins::Goto(6), Ins::Label(5), Ins::Lit(9), Ins::Label(6), Ins::Return] },
        Const::Method { name: 0, arity: 0, locals: 0, code: vec![Ins::Lit(10), Ins::Call(1, 1), Ins::Print(7, 1), Ins::Return] }], globals: vec![11], entry: 12 }));
    // user-defined methods under Feeny spellings are ordinary methods (objects may define `add`, `eq`, ...)
    progs.push(("user method named add / eq on an object and through a parent", Prog { consts: vec![s("main"), s("add"), s("eq"), s("<~ ~ ~>"), Const::Int(1), Const::Int(40), Const::Null, Const::Bool(true),
        Const::Method { name: 1, arity: 2, locals: 0, code: vec![Ins::GetLocal(1), Ins::Lit(5), Ins::CallSlot(1, 2), Ins::Return] },
        Const::Method { name: 2, arity: 2, locals: 0, code: vec![Ins::Lit(7), Ins::Return] },
        Const::Class(vec![8, 9]), Const::Class(vec![]),
        Const::Method { name: 0, arity: 0, locals: 1, code: vec![Ins::Lit(6), Ins::Object(10), Ins::SetLocal(0), Ins::Lit(4), Ins::CallSlot(1, 2),
            Ins::GetLocal(0), Ins::Object(11), Ins::Lit(4), Ins::CallSlot(1, 2), Ins::GetLocal(0), Ins::Lit(6), Ins::CallSlot(2, 2), Ins::Print(3, 3), Ins::Return] }], globals: vec![], entry: 12 }));
    // failures: unknown global, unknown function, wrong arity, empty stack drop, local outside frame
    for (what, code) in [("unknown global", vec![Ins::GetGlobal(1), Ins::Return]), ("set unknown global", vec![Ins::Lit(2), Ins::SetGlobal(1), Ins::Return]), ("unknown function", vec![Ins::Call(1, 0), Ins::Return]),
        ("function arity", vec![Ins::Lit(2), Ins::Call(0, 1), Ins::Return]), ("drop on empty stack", vec![Ins::Drop, Ins::Lit(2), Ins::Return]), ("local outside the frame", vec![Ins::GetLocal(5), Ins::Return]),
        ("undefined label", vec![Ins::Goto(1), Ins::Return]), ("call slot without receiver", vec![Ins::CallSlot(1, 0), Ins::Return])] {
        let mut c = vec![Ins::Print(3, 0), Ins::Drop]; c.extend(code);
        progs.push((what, Prog { consts: vec![s("main"), s("nosuch"), Const::Int(1), s("before\\n"), Const::Method { name: 0, arity: 0, locals: 1, code: c }], globals: vec![4], entry: 4 }));
    }
    for (what, x) in progs {
        if ctx.take().is_none() { continue }
        for k in 0..layout::N_KNOBS {
            // every hand-shaped program also under every layout transformation that keeps it valid
            let y = match layout::apply(&x, k) { Some(y) => y, None => continue };
            let w = what.to_string(); let kn = layout::knob_name(k);
            conform(ctx, "hand-shaped", &y, &|| json!({"program": w, "transformation": kn, "abstract": format!("{:?}", y)}));
        }
        ctx.nontrivial(what.as_bytes());
    }
}

// ---------------------------------------------------------------- U-INS(k): every instruction sequence

/// Every sequence of at most k instructions over a 20-letter alphabet (literals, drop, locals, a global,
/// two labels with goto and branch, prints, array, two built-in calls, a function call, return), as the
/// body of the entry method and as the body of a function called with one argument: control-flow and
/// value-discard shapes no compiler would emit (test-last loops, jumps into the middle, values left on
/// the stack at return, code after return). Judged by M; sequences that pop an empty operand stack, name
/// a label they do not define, define a label twice or do not finish within 2 000 steps are outside "conforming" and are skipped.
fn instruction_sequences(ctx: &mut Ctx) {
    let k = if ctx.quick() { 4 } else { 5 };
    let s = |x: &str| Const::Str(x.into());
    // 0 main, 1 f, 2 g, 3 A, 4 B, 5 <~>, 6 +, 7 1, 8 null, 9 false, 10 x, 11 ==, 12 h, 13 slot g, 14 method h
    let prefix = vec![s("main"), s("f"), s("g"), s("A"), s("B"), s("<~>"), s("+"), Const::Int(1), Const::Null, Const::Bool(false), s("x"), s("=="), s("h"), Const::Slot(2),
        Const::Method { name: 12, arity: 1, locals: 0, code: vec![Ins::GetLocal(0), Ins::Lit(7), Ins::CallSlot(6, 2), Ins::Return] }];
    let letters = [Ins::Lit(7), Ins::Lit(8), Ins::Lit(9), Ins::Drop, Ins::GetLocal(0), Ins::SetLocal(0), Ins::GetLocal(1), Ins::GetGlobal(2), Ins::SetGlobal(2),
        Ins::Label(3), Ins::Goto(3), Ins::Branch(3), Ins::Label(4), Ins::Branch(4), Ins::Print(5, 1), Ins::Print(10, 0), Ins::Array, Ins::CallSlot(6, 2), Ins::CallSlot(11, 2), Ins::Call(12, 1), Ins::Return];
    let n = letters.len() as u64;
    for len in 1..=k {
        ctx.stage(&format!("U-INS(k={}): every instruction sequence of this length, in the entry method and in a function", len));
        let total = n.pow(len as u32);
        for placement in 0..2 {
            let mut i = 0u64;
            while i < total {
                let off = ctx.next_owned_offset();
                if off > 0 { let step = off.min(total - i); ctx.skip(step); i += step; continue }
                let idx = i; i += 1;
                if ctx.take().is_none() { if ctx.capped { return } continue }
                let mut code = vec![]; let mut c = idx;
                for _ in 0..len { code.push(letters[(c % n) as usize]); c /= n }
                code.push(Ins::Return);
                let mut consts = prefix.clone();
                let x = if placement == 0 {
                    consts.push(Const::Method { name: 0, arity: 0, locals: 2, code: code.clone() });
                    Prog { consts, globals: vec![13, 14], entry: 15 }
                } else {
                    consts.push(Const::Method { name: 1, arity: 1, locals: 1, code: code.clone() });
                    consts.push(Const::Method { name: 0, arity: 0, locals: 0, code: vec![Ins::Lit(7), Ins::Call(1, 1), Ins::Print(5, 1), Ins::Return] });
                    Prog { consts, globals: vec![13, 14, 15], entry: 16 }
                };
                // a jump that names a label the method does not define: whether such a file is valid at all is not
                // documented (a loader may legitimately refuse it up front), so it is not judged here
                let dangling = code.iter().any(|i| match i { Ins::Goto(l) | Ins::Branch(l) => !code.contains(&Ins::Label(*l)), _ => false });
                if dangling { ctx.count("programs", 1); ctx.count("unspecified", 1); ctx.count("unspecified:jump-to-a-label-not-defined", 1); continue }
                let pre = refvm::run(&x, 2_000);
                if pre.status == Status::Unspec || (pre.status == Status::Fail && pre.reason.contains("operand stack empty")) {
                    ctx.count("programs", 1); ctx.count("unspecified", 1);
                    ctx.count(if pre.status == Status::Unspec { "unspecified:sequence-without-meaning" } else { "unspecified:operand-stack-underflow" }, 1);
                    continue;
                }
                conform(ctx, "instruction-sequence", &x, &|| json!({"placement": if placement == 0 { "entry method" } else { "function f called as f(1)" }, "sequence": format!("{:?}", code), "abstract": format!("{:?}", x)}));
                if !pre.out.is_empty() { ctx.nontrivial(format!("{}:{:?}", placement, code).as_bytes()) }
                if ctx.want_sample() { ctx.sample(json!({"universe": "U-INS", "placement": placement, "sequence": format!("{:?}", code)})) }
            }
        }
    }
}

/// what `printf` shows for an object: every ordered selection of 1..3 field names out of 8 (names that
/// are prefixes of each other, digits, upper case, underscore), under 4 parent kinds, plus one nested level
fn rendering(ctx: &mut Ctx) {
    ctx.stage("printf rendering of objects (field names x parents)");
    let names = ["b", "a", "a1", "ab", "a10", "B", "_", "a="];
    let s = |x: &str| Const::Str(x.into());
    let mut sels: Vec<Vec<usize>> = vec![];
    for i in 0..names.len() { sels.push(vec![i]); for j in 0..names.len() { if j == i { continue } sels.push(vec![i, j]); for k in 0..names.len() { if k == i || k == j { continue } sels.push(vec![i, j, k]) } } }
    for sel in sels {
        for parent in 0..4usize {
            if ctx.take().is_none() { continue }
            // pool: 0 main, 1 format, 2 null, 3 int 7, 4 int 2, 5.. names, then slots, class, inner class, entry
            let mut consts = vec![s("main"), s("<~>\\n"), Const::Null, Const::Int(7), Const::Int(2)];
            let nbase = consts.len() as u16;
            for i in &sel { consts.push(s(names[*i])) }
            let sbase = consts.len() as u16;
            for k in 0..sel.len() { consts.push(Const::Slot(nbase + k as u16)) }
            let class = consts.len() as u16;
            consts.push(Const::Class((0..sel.len()).map(|k| sbase + k as u16).collect()));
            let empty = consts.len() as u16;
            consts.push(Const::Class(vec![]));
            let mut code = match parent { 0 => vec![Ins::Lit(2)], 1 => vec![Ins::Lit(3)], 2 => vec![Ins::Lit(4), Ins::Lit(3), Ins::Array], _ => vec![Ins::Lit(2), Ins::Object(empty)] };
            for k in 0..sel.len() { code.push(if k == 1 { Ins::Lit(2) } else { Ins::Lit(3) }) }
            code.push(Ins::Object(class)); code.push(Ins::Print(1, 1)); code.push(Ins::Return);
            consts.push(Const::Method { name: 0, arity: 0, locals: 0, code });
            let entry = consts.len() as u16 - 1;
            let y = Prog { consts, globals: vec![], entry };
            let what = format!("object with fields {:?} (in this order), parent kind {}", sel.iter().map(|i| names[*i]).collect::<Vec<_>>(), parent);
            conform(ctx, "rendering", &y, &|| json!({"program": what, "abstract": format!("{:?}", y)}));
            ctx.nontrivial(what.as_bytes());
        }
    }
}

pub fn run(ctx: &mut Ctx) {
    hand_shaped(ctx);
    rendering(ctx);
    instruction_sequences(ctx);
    if ctx.capped { return }
    builtins(ctx);
    formats(ctx);
    ctx.stage("layout transformations of compiler output: U-SCALE");
    for (_name, prog) in super::super::universes::scale::programs(!ctx.quick()) { if ctx.take().is_some() { transformed(ctx, "U-SCALE", &prog, false) } }
    for (_name, prog) in super::super::universes::scale::programs_u16() { if ctx.take().is_some() { transformed(ctx, "U-SCALE", &prog, false) } }
    ctx.stage("layout transformations of compiler output: U-PAIR(d=2)");
    let ts = pair::templates(); let fs = pair::fillers();
    for t in &ts { for f in &fs {
        if ctx.take().is_none() { continue }
        let e = pair::fill(t, f);
        let pairs = !ctx.quick() || ctx.index % 31 == 0;
        for (kept, frame) in [(true, 0usize), (false, 2), (true, 3)] { transformed(ctx, "U-PAIR", &pair::in_frame(&e, kept, frame), pairs && frame == 0) }
    } }
    let n = if ctx.quick() { 3 } else { 4 };
    let mut g = sem::grammar();
    g.prepare(n);
    for size in 1..=n {
        ctx.stage(&format!("layout transformations of compiler output: U-SEM(n={})", size));
        for_each_owned(ctx, &g, sem::PROG, size, size, |ctx, _s, prog| {
            let pairs = !ctx.quick() && ctx.index % 7 == 0;
            transformed(ctx, "U-SEM", &sem::program(&prog, (ctx.index % 3) as usize), pairs);
        });
        if ctx.capped { return }
    }
}
