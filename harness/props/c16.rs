//! C16 — heap log: one record per created array/object; memory flags are inert.
//! Allocation histories of U-ALLOC and U-SEM programs are counted by the reference semantics and
//! compared record by record with the real heap log; flags must not change output or status.

use serde_json::json;
use super::super::cli;
use super::super::explore::{for_each_owned, Ctx};
use super::super::pipeline;
use super::super::refsem::{self, linearise, Alloc, Status};
use super::super::syntax::*;
use super::super::universes::sem;

pub struct Log { pub header_ok: bool, pub start_ok: bool, pub records: Vec<(String, u64)>, pub problems: Vec<String> }

pub fn parse_log(text: &str) -> Log {
    let mut lines = text.lines();
    let mut log = Log { header_ok: false, start_ok: false, records: vec![], problems: vec![] };
    log.header_ok = lines.next() == Some("timestamp,event,heap");
    let mut first = true;
    let mut last_ts: Option<u128> = None;
    for l in lines {
        let parts: Vec<&str> = l.split(',').collect();
        if parts.len() != 3 { log.problems.push(format!("malformed record `{}`", l)); continue }
        match parts[0].parse::<u128>() {
            Ok(ts) => { last_ts = Some(ts); }
            Err(_) => if parts[0].parse::<f64>().map_or(true, |x| !x.is_finite() || x < 0.0) { log.problems.push(format!("timestamp `{}` is not numeric", parts[0])) },
        }
        let heap = match parts[2].parse::<u64>() { Ok(h) => h, Err(_) => { log.problems.push(format!("heap size `{}` is not a number", parts[2])); continue } };
        if first {
            first = false;
            log.start_ok = parts[1] == "S" && heap == 0;
            if !log.start_ok { log.problems.push(format!("first record is `{}`, not a start record with heap 0", l)) }
            continue;
        }
        log.records.push((parts[1].to_string(), heap));
    }
    if first { log.problems.push("no start record".to_string()) }
    log
}

fn shape(a: &Alloc) -> String {
    match a {
        Alloc::Array(n) => format!("array[{}]", n),
        Alloc::Object(pk, fs, ms) => format!("object(parent:{};fields:{};methods:{})", pk, fs.join("|"), ms.join("|")),
        _ => "?".to_string(),
    }
}

pub fn case(ctx: &mut Ctx, universe: &str, stmts: &[E]) {
    let r = refsem::run(stmts);
    ctx.count("programs", 1);
    if r.status == Status::Unspec { ctx.count("unspecified", 1); return }
    ctx.count("states", r.steps); ctx.count("transitions", r.steps.saturating_sub(1));
    let text = show(stmts);
    ctx.describe(&text);
    let ast = match pipeline::parse(&text) { Ok(a) => a, Err(_) => return };
    let prog = match pipeline::compile(&ast) { Ok(p) => p, Err(_) => { ctx.count("compile_rejected", 1); return } };
    let plain = pipeline::execute(&prog);
    // The log path already holds an OLDER, LONGER log in two cases out of three (a run that overwrites an
    // earlier log must leave only its own records), is absent in the third. The old log is written
    // here, inside the case, so that the verdict of a case never depends on the cases before it (a
    // report must reproduce when its case is re-run alone).
    let logf = ctx.scratch.join("heap.csv");
    match ctx.index % 3 {
        0 => { let _ = std::fs::remove_file(&logf); }
        k => {
            let mut old = String::from("timestamp,event,heap\n1700000000000000000,S,0\n");
            for i in 0..(if k == 1 { 40 } else { 400 }) { old.push_str(&format!("17000000000000{:05},A,{}\n", i, 48 * (i + 1))) }
            let _ = std::fs::write(&logf, old);
        }
    }
    let logged = pipeline::execute_cfg(&prog, Some(if ctx.index % 2 == 0 { 0 } else { 1 }), Some(logf.clone()));
    ctx.count("traces_validated_against_impl", 1);
    if plain != logged {
        ctx.violation("flags/heap-log-changes-behaviour", "output or status differ with and without the heap log",
            json!({"text": text, "without": {"ok": plain.ok, "stdout": plain.out}, "with": {"ok": logged.ok, "stdout": logged.out, "error": logged.err}}));
    }
    let content = std::fs::read_to_string(&logf).unwrap_or_default();
    let log = parse_log(&content);
    let mut bad: Vec<String> = log.problems.clone();
    if !log.header_ok { bad.push("header is not `timestamp,event,heap`".to_string()) }
    // expected allocation sequence (either admissible linearisation, one choice per run)
    let a = linearise(&r.allocs, true);
    let b = linearise(&r.allocs, false);
    let n = log.records.len();
    if log.records.iter().any(|(e, _)| e != "A") { bad.push("a record other than `A` follows the start record".to_string()) }
    // (a program that fails inside a compound array leaves its group open: the outer array then exists in
    // the outer-first order only, which `linearise` reproduces, so both candidates stay exact)
    let fits = |exp: &Vec<Alloc>| -> bool { exp.len() == n };
    let chosen = if fits(&a) { Some(a.clone()) } else if fits(&b) { Some(b.clone()) } else { None };
    match &chosen {
        None => bad.push(format!("{} allocation records, but the program creates {} arrays/objects", n, a.len())),
        Some(exp) => {
            let mut prev = 0u64;
            for (i, (_, heap)) in log.records.iter().enumerate() {
                if *heap <= prev { bad.push(format!("cumulative size does not strictly increase at record {} ({} after {})", i, heap, prev)) }
                if let Some(al) = exp.get(i) { ctx.count(&format!("shape:{}=>{}", shape(al), heap - prev.min(*heap)), 1) }
                prev = *heap;
            }
        }
    }
    if !bad.is_empty() {
        ctx.violation("heaplog/records-do-not-match-allocations", "the heap log does not describe the program's allocation history",
            json!({"text": text, "problems": bad, "log": content.chars().take(600).collect::<String>(), "reference_allocations": a.iter().map(shape).collect::<Vec<_>>(), "cli": "fml run --heap-log log.csv <file>"}));
    }
    if a.len() >= 1 { ctx.nontrivial(text.as_bytes()) }
    if ctx.want_sample() { ctx.sample(json!({"universe": universe, "text": text, "allocations": a.iter().map(shape).collect::<Vec<_>>(), "log_records": n})) }
}

fn alloc_universe() -> Vec<Vec<E>> {
    let mut out: Vec<Vec<E>> = vec![];
    let names = ["a", "bb", "ccc"];
    let mut allocs: Vec<E> = vec![];
    for n in 0..=3 { allocs.push(array(int(n), int(0))); allocs.push(array(int(n), E::Null)); allocs.push(array(int(n), var("gx"))) }
    for n in 0..=3 { allocs.push(array(int(n), object(None, vec![field("a", int(1))]))); allocs.push(array(int(n), array(int(n), int(0)))); allocs.push(array(int(n), call("mk", vec![]))) }
    for i in 0..3 { for j in 0..3 {
        allocs.push(object(None, vec![field(names[i], int(1))]));
        allocs.push(object(None, vec![field(names[i], int(1)), field(if i == j { "zz" } else { names[j] }, E::Null)]));
        allocs.push(object(None, vec![method(names[i], &[], int(1)), method(if i == j { "zz" } else { names[j] }, &["p"], var("p"))]));
        allocs.push(object(Some(int(5)), vec![field(names[i], E::Bool(true)), method(names[j], &[], int(1))]));
    } }
    // allocations made by user-defined get / operator / method members, alone and once per element
    for n in 0..=3 {
        allocs.push(array(int(n), idx(var("maker"), int(0)))); allocs.push(array(int(n), binop("+", var("maker"), int(1))));
        allocs.push(array(int(n), mcall(var("maker"), "get", vec![var("gx")]))); allocs.push(array(int(n), fget(var("maker"), "fld")));
        allocs.push(array(int(n), idx(fget(var("maker"), "arr"), int(0))));
    }
    allocs.push(idx(var("maker"), int(0))); allocs.push(binop("+", var("maker"), int(1))); allocs.push(idxset(var("maker"), int(0), int(1)));
    allocs.push(object(None, vec![]));
    allocs.push(object(Some(array(int(2), int(0))), vec![]));
    allocs.push(object(Some(object(None, vec![])), vec![field("a", object(None, vec![]))]));
    let prelude = || vec![let_("gx", int(1)), fun("mk", &[], object(None, vec![field("k", int(0))])), fun("id", &["p"], var("p")),
        let_("maker", object(None, vec![field("fld", int(2)), field("arr", array(int(1), int(7))),
            method("get", &["i"], array(int(1), var("i"))), method("+", &["k"], object(None, vec![field("k", var("k"))])),
            method("set", &["i", "w"], array(int(2), var("w")))]))];
    // non-allocating statements must produce no records
    let quiet: Vec<E> = vec![int(1), binop("+", int(1), int(2)), call("id", vec![E::Bool(true)]), print("~\\n", vec![E::Null]), let_("q", int(3)), if_(E::Bool(true), int(1), None), binop("==", E::Null, int(1))];
    for a in &allocs {
        let mut p = prelude(); p.push(a.clone()); out.push(p);
        let mut p = prelude(); p.push(let_("v", a.clone())); p.push(print("~\\n", vec![var("v")])); out.push(p);
        for iters in 0..=3 {
            let mut p = prelude();
            p.push(let_("i", int(0)));
            p.push(while_(binop("<", var("i"), int(iters)), block(vec![set("i", binop("+", var("i"), int(1))), a.clone()])));
            out.push(p);
        }
        let mut p = prelude(); p.push(fun("callee", &["p"], block(vec![a.clone(), var("p")]))); p.push(call("callee", vec![a.clone()])); out.push(p);
        let mut p = prelude(); p.push(a.clone()); p.push(binop("/", int(1), int(0))); p.push(a.clone()); out.push(p); // fails between two allocations
    }
    for q in &quiet { let mut p = prelude(); p.push(q.clone()); out.push(p); let mut p = prelude(); p.push(q.clone()); p.push(allocs[0].clone()); p.push(q.clone()); out.push(p) }
    out
}

fn processes(ctx: &mut Ctx) {
    ctx.stage("flags as processes: run / execute x heap-log x heap-size");
    let exe = ctx.exe.clone();
    let programs = vec![
        // more than 1 MiB of live arrays: a heap size of 1 MB must still be inert
        "let keep = array(50, null); let i = 0; while i < 50 do begin keep[i] <- array(2000, i); i <- i + 1 end; print(\"kept ~ arrays, last cell ~\\n\", i, keep[49][1999])".to_string(),
        "print(\"hi\\n\")".to_string(),
        "let a = array(3, object begin let f = 1 end); print(\"~\\n\", a)".to_string(),
        "function mk(n) -> object extends n begin let v = array(n, n) end; let i = 0; while i < 5 do begin mk(i); i <- i + 1 end; print(\"done ~\\n\", i)".to_string(),
        "let o = object begin let a = 1 end; print(\"x\\n\"); o.nosuch; print(\"y\\n\")".to_string(),
        "array(2, 0); 1 / 0".to_string(),
    ];
    for src in programs {
        if ctx.take().is_none() { continue }
        ctx.describe(&src);
        let stmts = match pipeline::parse_to_e(&src) { Ok(s) => s, Err(_) => continue };
        let r = refsem::run(&stmts);
        let expected_allocs = linearise(&r.allocs, true).len();
        let f = cli::write_file(&ctx.scratch, "p.fml", src.as_bytes());
        let ast = ctx.scratch.join("p.json"); let bcf = ctx.scratch.join("p.bc");
        // every case starts from fresh files: the verdict of a case never depends on the cases before it
        let _ = std::fs::remove_file(&ast); let _ = std::fs::remove_file(&bcf);
        cli::simple(&exe, &["parse", f.to_str().unwrap(), "-o", ast.to_str().unwrap()]);
        cli::simple(&exe, &["compile", ast.to_str().unwrap(), "-o", bcf.to_str().unwrap()]);
        ctx.count("programs", 1);
        ctx.nontrivial(src.as_bytes());
        // the shared log paths start every case holding an older, longer log (written here: self-contained)
        for l in ["log.csv", "new/dir/log.csv"] {
            let lp = ctx.scratch.join("shared").join(l);
            if let Some(d) = lp.parent() { let _ = std::fs::create_dir_all(d); }
            let mut old = String::from("timestamp,event,heap\n1700000000000000000,S,0\n");
            for i in 0..500 { old.push_str(&format!("17000000000000{:05},A,{}\n", i, 48 * (i + 1))) }
            let _ = std::fs::write(&lp, old);
        }
        let mut n = 0;
        for action in ["run", "execute"] {
            let input = if action == "run" { f.clone() } else { bcf.clone() };
            // the flags must be inert for each action on its own (C16 does not relate run to execute)
            let base = cli::simple(&exe, &[action, input.to_str().unwrap()]);
            for log in [None, Some("log.csv"), Some("new/dir/log.csv")] {
                for size in [None, Some("0"), Some("1"), Some("4096")] {
                    n += 1;
                    let mut args: Vec<String> = vec![action.to_string(), input.to_str().unwrap().to_string()];
                    // every second configuration reuses one path, so that a short log follows a long one
                    let logpath = log.map(|l| ctx.scratch.join(if n % 2 == 0 { "shared".to_string() } else { format!("c{}", n) }).join(l));
                    if let Some(lp) = &logpath { args.push("--heap-log".into()); args.push(lp.to_str().unwrap().to_string()) }
                    if let Some(sz) = size { args.push("--heap-size".into()); args.push(sz.to_string()) }
                    let a: Vec<&str> = args.iter().map(|s| s.as_str()).collect();
                    let res = cli::simple(&exe, &a);
                    ctx.count("cli_runs", 1);
                    if res.stdout != base.stdout || res.code != base.code || res.signal.is_some() {
                        ctx.violation("flags/change-output-or-status", "a memory flag changes output or exit status",
                            json!({"text": src, "args": args[2..].to_vec(), "action": action, "stdout": res.out(), "exit": res.code, "expected_stdout": base.out(), "expected_exit": base.code}));
                    }
                    if let Some(lp) = &logpath {
                        let content = std::fs::read_to_string(lp).unwrap_or_default();
                        let lg = parse_log(&content);
                        if !lg.header_ok || !lg.start_ok || !lg.problems.is_empty() || (r.status != Status::Unspec && lg.records.len() != expected_allocs) {
                            ctx.violation("heaplog/cli-log-malformed", "the heap log written by the CLI is malformed or has the wrong number of records",
                                json!({"text": src, "args": args[2..].to_vec(), "action": action, "log": content.chars().take(500).collect::<String>(), "expected_allocation_records": expected_allocs, "problems": lg.problems}));
                        }
                    }
                }
            }
        }
    }
}

/// a U-ALLOC program through the real command line: `run` and `execute`, log on/off
fn cli_case(ctx: &mut Ctx, stmts: &[E]) { cli_case_with(ctx, stmts, refsem::Fuel::default()) }

fn cli_case_with(ctx: &mut Ctx, stmts: &[E], fuel: refsem::Fuel) {
    let r = refsem::run_with(stmts, fuel, &[]);
    if r.status == Status::Unspec { return }
    let exe = ctx.exe.clone();
    let text = show(stmts);
    let expected = linearise(&r.allocs, true).len();
    let f = cli::write_file(&ctx.scratch, "a.fml", text.as_bytes());
    let ast = ctx.scratch.join("a.json"); let bcf = ctx.scratch.join("a.bc");
    let _ = std::fs::remove_file(&ast); let _ = std::fs::remove_file(&bcf);
    cli::simple(&exe, &["parse", f.to_str().unwrap(), "-o", ast.to_str().unwrap()]);
    cli::simple(&exe, &["compile", ast.to_str().unwrap(), "-o", bcf.to_str().unwrap()]);
    for (action, input) in [("run", f.clone()), ("execute", bcf.clone())] {
        let base = cli::simple(&exe, &[action, input.to_str().unwrap()]);
        let lp = ctx.scratch.join(format!("{}.csv", action));
        // `run` writes to a fresh path, `execute` over an older, longer log (written here, see `case`)
        let _ = std::fs::remove_file(&lp);
        if action == "execute" {
            let mut old = String::from("timestamp,event,heap\n1700000000000000000,S,0\n");
            for i in 0..3_000 { old.push_str(&format!("17000000000000{:06},A,{}\n", i, 48 * (i + 1))) }
            let _ = std::fs::write(&lp, old);
        }
        let res = cli::simple(&exe, &[action, input.to_str().unwrap(), "--heap-log", lp.to_str().unwrap(), "--heap-size", "1"]);
        ctx.count("cli_runs", 1);
        let content = std::fs::read_to_string(&lp).unwrap_or_default();
        let lg = parse_log(&content);
        let mut problems = lg.problems.clone();
        if res.stdout != base.stdout || res.code != base.code { problems.push("output or exit status differ from the run without flags".to_string()) }
        if !lg.header_ok { problems.push("header".to_string()) }
        if lg.records.len() != expected { problems.push(format!("{} allocation records, the program creates {} arrays/objects", lg.records.len(), expected)) }
        if !problems.is_empty() {
            ctx.violation("heaplog/cli-log-does-not-match-allocations", "the heap log written by the command line does not describe the program's allocation history",
                json!({"text": text, "action": action, "problems": problems, "log": content.chars().take(400).collect::<String>(), "cli": format!("fml {} <file> --heap-log log.csv --heap-size 1", action)}));
        }
    }
}

pub fn run(ctx: &mut Ctx) {
    ctx.stage("U-ALLOC");
    let stride = if ctx.quick() { 7 } else { 1 };
    for (i, p) in alloc_universe().into_iter().enumerate() { if ctx.take().is_some() { case(ctx, "U-ALLOC", &p); if i % stride == 0 { cli_case(ctx, &p) } } }
    // long allocation histories (record 256, 257, 65 536, 65 537 ... must be there like record 1)
    ctx.stage("long allocation histories through the command line");
    for count in [255usize, 256, 257, 1000, 65_535, 65_537, 70_000] {
        for kind in 0..3usize {
            if ctx.take().is_none() { continue }
            let alloc = match kind { 0 => array(int(1), var("i")), 1 => object(None, vec![field("a", var("i"))]), _ => array(int(2), object(None, vec![])) };
            let p = vec![let_("i", int(0)), while_(binop("<", var("i"), int(count as i32)), block(vec![alloc, set("i", binop("+", var("i"), int(1)))])), print("made ~\\n", vec![var("i")])];
            let mut fuel = refsem::Fuel::default();
            fuel.steps = 5_000_000; fuel.cells = 1_000_000;
            cli_case_with(ctx, &p, fuel);
            ctx.count("programs", 1);
        }
    }
    let n = if ctx.quick() { 3 } else { 4 };
    let mut g = sem::grammar();
    g.prepare(n);
    for size in 1..=n {
        ctx.stage(&format!("U-SEM(n={})", size));
        for_each_owned(ctx, &g, sem::PROG, size, size, |ctx, _s, prog| case(ctx, "U-SEM", &sem::program(&prog, (ctx.index % 3) as usize)));
        if ctx.capped { return }
    }
    processes(ctx);
}
