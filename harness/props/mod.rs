//! One module per property: alphabet + bound + oracle.
pub mod common;
pub mod selfcheck;
pub mod c01;
pub mod c12;
pub mod c13;
pub mod c14;
pub mod c15;

use super::explore::Ctx;

pub fn run(prop: &str, ctx: &mut Ctx) -> bool {
    match prop {
        "C01" => c01::run(ctx),
        "C12" => c12::run(ctx),
        "C13" => c13::run(ctx),
        "C14" => c14::run(ctx),
        "C15" => c15::run(ctx),
        _ => return false,
    }
    true
}
