//! C11 — compilation and execution are deterministic. Every program of the universes is compiled
//! and run three times in a row inside one process (fresh HashMap seeds each time) and its
//! (bytes, stdout) fingerprint is written to a table; the driver runs the whole universe under
//! two different shardings (every program is handled by two different processes with different
//! hash keys, allocation histories and predecessors) and under the debug build, and compares the
//! tables. A corpus + wide-program subset runs as fresh `fml` pipelines under perturbed environments.

use serde_json::json;
use super::super::cli;
use super::super::codec;
use super::super::explore::{fnv, for_each_owned, Ctx};
use super::super::pipeline;
use super::super::syntax::*;
use super::super::universes::{pair, sem, syn};
use super::selfcheck::corpus_files;

fn once(text: &str) -> Option<(Vec<u8>, bool, String)> {
    let ast = pipeline::parse(text).ok()?;
    let prog = pipeline::compile(&ast).ok()?;
    let bytes = pipeline::serialize(&prog).ok()?;
    let (r, _steps, _fin) = pipeline::execute_bounded(&prog, 20_000);
    Some((bytes, r.ok, r.out))
}

pub fn case(ctx: &mut Ctx, origin: &str, text: &str) {
    ctx.describe(text);
    let first = match once(text) { Some(x) => x, None => { ctx.count("rejected", 1); return } };
    ctx.count("programs", 1);
    // the first run of the driver repeats every program in-process; the other runs (second sharding,
    // debug build) contribute one more independent draw each
    let repeats = if std::env::var("VERIF_RUN_INDEX").map_or(true, |v| v == "0") { 3 } else { 1 };
    for rep in 1..repeats {
        ctx.count("in_process_repeats", 1);
        match once(text) {
            Some(again) if again == first => {}
            Some(again) => {
                let key = if again.0 != first.0 { "determinism/compiled-bytes-differ-between-runs" } else { "determinism/output-differs-between-runs" };
                ctx.violation(key, "the same source gave different results in two consecutive in-process runs",
                    json!({"origin": origin, "text": text, "first": {"bytes": codec::hex(&first.0), "stdout": first.2}, "again": {"bytes": codec::hex(&again.0), "stdout": again.2}}));
            }
            None => ctx.violation("determinism/accepted-then-rejected", "the same source was accepted once and rejected later", json!({"origin": origin, "text": text})),
        }
    }
    let id = format!("{:016x}", fnv(text.as_bytes()));
    ctx.fingerprint(&id, &format!("{:016x} {} {:016x}", fnv(&first.0), first.1, fnv(first.2.as_bytes())));
    if first.0.len() > 60 { ctx.nontrivial(text.as_bytes()) }
    if ctx.want_sample() { ctx.sample(json!({"origin": origin, "text": text, "bytes": first.0.len(), "stdout": first.2})) }
}

/// programs with many globals / fields / methods / labels / functions: any order leak has many orders to choose from
pub fn wide_programs() -> Vec<String> {
    let mut v = vec![];
    for n in [8usize, 12] {
        let names: Vec<String> = (0..n).map(|i| format!("{}{}", ["zeta", "alpha", "mid", "Beta", "_u", "k9"][i % 6], i)).collect();
        // globals
        let mut s = String::new();
        for (i, nm) in names.iter().enumerate() { s.push_str(&format!("let {} = {};\n", nm, i)) }
        s.push_str(&format!("print(\"{}\\n\", {})", names.iter().map(|_| "~").collect::<Vec<_>>().join(" "), names.join(", ")));
        v.push(s);
        // fields + methods
        let mut s = String::from("let o = object begin ");
        for (i, nm) in names.iter().enumerate() { s.push_str(&format!("let {} = {}; function m{}() -> this.{}; ", nm, i, nm, nm)) }
        s.push_str("end;\nprint(\"~\\n\", o);\n");
        s.push_str(&format!("print(\"{}\\n\", {})", names.iter().map(|_| "~").collect::<Vec<_>>().join(" "), names.iter().map(|n| format!("o.m{}()", n)).collect::<Vec<_>>().join(", ")));
        v.push(s);
        // functions + locals + labels
        let mut s = String::new();
        for (i, nm) in names.iter().enumerate() { s.push_str(&format!("function f{}(a, b) -> begin let {} = a; let t = if a < b then {} else b; while t < {} do t <- t + 1; t + {} end;\n", i, nm, nm, i + 2, nm)) }
        s.push_str(&format!("print(\"{}\\n\", {})", names.iter().map(|_| "~").collect::<Vec<_>>().join(" "), (0..n).map(|i| format!("f{}({}, 3)", i, i)).collect::<Vec<_>>().join(", ")));
        v.push(s);
    }
    v
}

fn pipelines(ctx: &mut Ctx) {
    ctx.stage("fresh processes under perturbed environments");
    let exe = ctx.exe.clone();
    let root = std::env::var("VERIF_REPO").unwrap_or("/repo".to_string());
    let mut sources: Vec<String> = wide_programs();
    for p in corpus_files(&root) { if let Ok(s) = std::fs::read_to_string(&p) { if s.len() < 20_000 { sources.push(s) } } }
    let envs: Vec<Vec<(&str, &str)>> = vec![
        vec![], vec![("TZ", "Pacific/Kiritimati"), ("LANG", "tr_TR.UTF-8")], vec![("LC_ALL", "C"), ("HOME", "/nonexistent")],
        vec![("RUST_LOG", "trace"), ("X", "1"), ("Y", "2"), ("Z", "3")], vec![("TZ", "UTC"), ("COLUMNS", "3")],
        vec![("MALLOC_PERTURB_", "165")], vec![("TMPDIR", "/nonexistent")], vec![("LANG", "ja_JP.eucJP")],
    ];
    for src in sources {
        if ctx.take().is_none() { continue }
        ctx.describe(&src);
        let mut seen: Option<(Vec<u8>, Vec<u8>, Option<i32>)> = None;
        for (ei, env) in envs.iter().enumerate() {
            let dir = ctx.scratch.join(format!("e{}", ei));
            let _ = std::fs::create_dir_all(&dir);
            let f = cli::write_file(&dir, "p.fml", src.as_bytes());
            let p = cli::run(&exe, &["parse", "p.fml", "-o", "p.json"], None, Some(&dir), env, std::time::Duration::from_secs(20));
            let c = cli::run(&exe, &["compile", "p.json", "-o", "p.bc"], None, Some(&dir), env, std::time::Duration::from_secs(20));
            let e = cli::run(&exe, &["execute", "p.bc"], None, Some(&dir), env, std::time::Duration::from_secs(20));
            ctx.count("cli_pipelines", 1);
            let bytes = std::fs::read(dir.join("p.bc")).unwrap_or_default();
            let now = (bytes, e.stdout.clone(), e.code);
            match &seen {
                None => seen = Some(now),
                Some(s) if *s == now => {}
                Some(s) => {
                    ctx.violation("determinism/fresh-processes-differ", "two fresh pipelines over the same source differ",
                        json!({"text": src, "environment": format!("{:?}", env), "bytes_equal": s.0 == now.0, "stdout_equal": s.1 == now.1, "exit": [s.2, now.2]}));
                }
            }
        }
        ctx.count("programs", 1);
        ctx.nontrivial(src.as_bytes());
    }
}

/// programs at and just beyond the limits of the bytecode format (u8 arities, u16 indices), and
/// programs the toolchain must refuse: both build profiles must take the same decision
pub fn limit_programs() -> Vec<String> {
    let mut v = vec![];
    for n in [254usize, 255, 256, 257] {
        let params: Vec<String> = (0..n).map(|i| format!("p{}", i)).collect();
        let args: Vec<String> = (0..n).map(|i| format!("{}", i % 7)).collect();
        v.push(format!("function many({}) -> p0 + p{};\nprint(\"~\\n\", many({}))", params.join(", "), n - 1, args.join(", ")));
        v.push(format!("let o = object begin function many({}) -> p{} end;\nprint(\"~\\n\", o.many({}))", params.join(", "), n - 1, args.join(", ")));
        v.push(format!("print(\"{}\\n\", {})", vec!["~"; n].join(" "), args.join(", ")));
    }
    for n in [255usize, 256, 300] {
        let lets: Vec<String> = (0..n).map(|i| format!("let v{} = {}", i, i)).collect();
        v.push(format!("function locals() -> begin {}; v{} end;\nprint(\"~\\n\", locals())", lets.join("; "), n - 1));
        let fields: Vec<String> = (0..n).map(|i| format!("let f{} = {}", i, i)).collect();
        v.push(format!("let o = object begin {} end;\nprint(\"~\\n\", o.f{})", fields.join("; "), n - 1));
    }
    // the largest frames the format can express: 1 parameter + 65534/65535 locals (and one more: refused or not, the same everywhere)
    for n in [65534usize, 65535, 65536] {
        let mut s = String::with_capacity(n * 24);
        s.push_str("print(\"before\\n\");\nfunction wide(p) -> begin\n");
        for i in 0..n { s.push_str(&format!("let v{} = {};\n", i, i % 10)); }
        s.push_str(&format!("p + v0 + v{}\nend;\nprint(\"~\\n\", wide(7));\nprint(\"after\\n\")", n - 1));
        // the same frame, with the locals in a branch that is not taken
        let guarded = s.replacen("begin\n", "if false then begin\n", 1).replacen("\nend;\n", "\nend else 7;\n", 1);
        v.push(s);
        v.push(guarded);
    }
    v.push("function first(a, a) -> a;\nprint(\"~\\n\", first(1, 2))".to_string());
    v.push("let o = object begin function m(this) -> this end;\nprint(\"~\\n\", o.m(1))".to_string());
    v.push("let o = object begin let a = 1; let a = 2 end;\nprint(\"~\\n\", o)".to_string());
    v.push("let o = object begin function m() -> 1; function m() -> 2 end;\nprint(\"~\\n\", o.m())".to_string());
    v.push("function f() -> 1;\nfunction f() -> 2;\nprint(\"~\\n\", f())".to_string());
    v.push("let x = 1;\nlet x = 2;\nprint(\"~\\n\", x)".to_string());
    v.push("begin let x = 1; let x = 2; print(\"~\\n\", x) end".to_string());
    v.push("print(\"~\\n\", 2147483647 + 1 - -2147483648 * 3)".to_string());
    v
}

/// like `case`, but a refusal (parse/compile/serialize error) is a result too, and must be the same everywhere
fn limit_case(ctx: &mut Ctx, text: &str) { limit_case_with(ctx, text, true) }

/// `as_process = false` for programs nested deeper than the 200 levels C10 quantifies over: how deep
/// a build's native stack reaches is a resource limit (the debug binary overflows its 8 MiB stack on
/// blocks nested 1 000 deep, the release binary does not), not a source of nondeterminism
fn limit_case_with(ctx: &mut Ctx, text: &str, as_process: bool) {
    ctx.describe(text);
    let outcome = || -> String {
        match once(text) { Some((b, ok, out)) => format!("{:016x} {} {:016x}", fnv(&b), ok, fnv(out.as_bytes())), None => "refused".to_string() }
    };
    let first = outcome();
    ctx.count("programs", 1);
    let again = outcome();
    if first != again { ctx.violation("determinism/limit-program-differs-between-runs", "a program at a format limit gave different results in two consecutive runs", json!({"text": text.chars().take(300).collect::<String>(), "first": first, "again": again})) }
    ctx.fingerprint(&format!("{:016x}", fnv(text.as_bytes())), &first);
    ctx.nontrivial(text.as_bytes());
    // and as a real process (`fml run <file>` of THIS build profile, on the process's own main-thread
    // stack): exit status, signal and stdout go into the table too, so that the driver compares what
    // the debug and the release binary really do with programs at the limits
    // (the second release run uses the same binary as the first: no need to repeat the processes there)
    if !as_process || std::env::var("VERIF_RUN_INDEX").map_or(false, |v| v == "1") { return }
    let f = super::super::cli::write_file(&ctx.scratch, "limit.fml", text.as_bytes());
    let exe = ctx.exe.clone();
    let res = super::super::cli::run(&exe, &["run", f.to_str().unwrap()], None, None, &[], std::time::Duration::from_secs(120));
    ctx.count("cli_pipelines", 1);
    ctx.fingerprint(&format!("{:016x}/process", fnv(text.as_bytes())), &format!("exit {:?} signal {:?} stdout {:016x}", res.code, res.signal, fnv(&res.stdout)));
}

pub fn run(ctx: &mut Ctx) {
    let debug = cfg!(debug_assertions);
    ctx.stage("programs at the limits of the format");
    for s in limit_programs() { if ctx.take().is_some() { limit_case(ctx, &s) } }
    for (name, prog) in super::super::universes::scale::programs(!ctx.quick()) { if ctx.take().is_some() { limit_case_with(ctx, &show(&prog), !name.contains("nested blocks")) } }
    ctx.stage("CORPUS + wide programs");
    let root = std::env::var("VERIF_REPO").unwrap_or("/repo".to_string());
    for p in corpus_files(&root) {
        if ctx.take().is_none() { continue }
        if let Ok(s) = std::fs::read_to_string(&p) { case(ctx, "CORPUS", &s) }
    }
    for s in wide_programs() { if ctx.take().is_some() { case(ctx, "WIDE", &s) } }
    ctx.stage("U-PAIR(d=2)");
    let ts = pair::templates(); let fs = pair::fillers();
    for t in &ts { for f in &fs {
        if ctx.take().is_none() { continue }
        let e = pair::fill(t, f);
        for frame in 0..4 { case(ctx, "U-PAIR", &show(&pair::in_frame(&e, frame % 2 == 0, frame))) }
    } }
    // the debug binary is about 10x slower: it gets the n-1 universe
    let (syn_n, sem_n) = match (ctx.quick(), debug) { (true, false) => (4, 3), (true, true) => (3, 2), (false, false) => (5, 4), (false, true) => (4, 3) };
    let mut g = syn::grammar();
    g.prepare(syn_n);
    for n in 1..=syn_n {
        ctx.stage(&format!("U-SYN(n={})", n));
        for_each_owned(ctx, &g, syn::X, n, n, |ctx, _s, e| { for pl in [0usize, 3, 5, 6] { case(ctx, "U-SYN", &show(&syn::place(&e, pl))) } });
        if ctx.capped { return }
    }
    // scope programs decide slot numbering; release: N <= 5 (N = 5 in the block frame only), debug: N <= 4
    let scope_n = match (ctx.quick(), debug) { (true, false) => 5, (true, true) => 4, (false, false) => 6, (false, true) => 5 };
    let mut gs = super::c12::grammar();
    gs.prepare(scope_n);
    for n in 1..=scope_n {
        ctx.stage(&format!("U-SCOPE(N={})", n));
        let last = n == scope_n && !debug;
        for_each_owned(ctx, &gs, 1, n, n, |ctx, _s, seq| {
            for (frame, prog) in super::c12::frames(&seq) { if frame == "block" || (frame == "function" && !last) { case(ctx, "U-SCOPE", &show(&prog)) } }
        });
        if ctx.capped { return }
    }
    let mut g = sem::grammar();
    g.prepare(sem_n);
    for n in 1..=sem_n {
        ctx.stage(&format!("U-SEM(n={})", n));
        for_each_owned(ctx, &g, sem::PROG, n, n, |ctx, _s, prog| case(ctx, "U-SEM", &show(&sem::program(&prog, (ctx.index % 3) as usize))));
        if ctx.capped { return }
    }
    if !debug { pipelines(ctx) }
}
