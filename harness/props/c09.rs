//! C09 — built-in integer/boolean/null operations: total, 32-bit, build-independent.
//! Exhaustive tables: boundary set^2 x 11 integer operators, all boolean/null tables, all
//! cross-kind (receiver, argument) pairs x 13 operators, as source programs and as operator-method
//! calls; evaluated by whichever binary runs this module (the driver runs it under the release
//! AND the debug build and compares the two result tables line by line).

use serde_json::json;
use super::super::explore::Ctx;
use super::super::pipeline;
use super::super::refsem::{self, Status};
use super::super::syntax::*;

pub fn boundary(thorough: bool) -> Vec<i32> {
    let mut v: Vec<i32> = vec![i32::MIN, i32::MIN + 1, -65536, -46341, -46340, -2, -1, 0, 1, 2, 46340, 46341, 65535, 65536, i32::MAX - 1, i32::MAX];
    if thorough {
        for k in 0..31 { let p = 1i32 << k; for x in [p, p - 1, p.wrapping_add(1), -p, -p + 1, (-p).wrapping_sub(1)] { v.push(x) } }
        v.extend([3, 7, -7, 10, 1000, -1000, 12345, 99999, 1_000_000_007, -1_000_000_007, 715827882, 1431655765]);
        v.sort(); v.dedup();
    }
    v
}

fn case(ctx: &mut Ctx, id: &str, expr: E) {
    let prog = vec![print("[", vec![]), print("~", vec![expr]), print("]", vec![])];
    case_in(ctx, id, prog)
}

/// the same operation where its value is discarded, and where it is the condition of an `if` and of a
/// `while` (whose body prints and then fails, so that every outcome terminates): the operation is
/// performed - and checked - wherever it stands
fn case_in_contexts(ctx: &mut Ctx, id: &str, expr: E) {
    case_in(ctx, &format!("{} [discarded]", id), vec![print("[", vec![]), block(vec![expr.clone(), int(0)]), print("]", vec![])]);
    case_in(ctx, &format!("{} [if]", id), vec![print("[", vec![]), print("~", vec![if_(expr.clone(), int(1), Some(int(2)))]), print("]", vec![])]);
    case_in(ctx, &format!("{} [while]", id), vec![print("[", vec![]), while_(expr, block(vec![print("in", vec![]), binop("/", int(1), int(0))])), print("]", vec![])]);
}

fn case_in(ctx: &mut Ctx, id: &str, prog: Vec<E>) {
    let r = refsem::run(&prog);
    ctx.count("programs", 1);
    if r.status == Status::Unspec { ctx.count("unspecified", 1); return }
    let text = show(&prog);
    let st = pipeline::run_source(&text, false);
    let (ok, out) = match (&st.direct, &st.refused) {
        (Some(d), _) => (d.ok, d.out.clone()),
        (None, Some((stage, e))) => (false, String::new()),
        _ => (false, String::new()),
    };
    let actual = if ok { out.clone() } else { format!("FAIL after {:?}", out) };
    ctx.fingerprint(id, &actual);
    ctx.nontrivial(text.as_bytes());
    let expected_ok = r.status == Status::Ok;
    if ok != expected_ok || out != r.out {
        let key = if expected_ok && !ok { "arith/defined-operation-fails" } else if !expected_ok && ok { "arith/undefined-operation-succeeds" } else { "arith/wrong-result" };
        ctx.violation(key, "a built-in operation does not give the specified result", json!({
            "text": text, "case": id, "expected": {"status": if expected_ok { "ok" } else { "fail" }, "stdout": r.out},
            "actual": {"status": if ok { "ok" } else { "fail" }, "stdout": out, "error": st.direct.as_ref().map(|d| d.err.clone())},
            "profile": if cfg!(debug_assertions) { "debug" } else { "release" }, "cli": "fml run <file>"}));
    }
    if ctx.want_sample() { ctx.sample(json!({"case": id, "text": text, "result": actual})) }
}

pub fn run(ctx: &mut Ctx) {
    let profile = if cfg!(debug_assertions) { "debug" } else { "release" };
    ctx.note(&format!("this table was computed by the {} build", profile));
    let ints = boundary(!ctx.quick());
    let int_ops = ["+", "-", "*", "/", "%", "<", "<=", ">", ">=", "==", "!="];
    ctx.stage(&format!("integer tables ({} values squared x 11 operators x 2 spellings)", ints.len()));
    for a in &ints { for b in &ints { for op in int_ops {
        if ctx.take().is_none() { continue }
        case(ctx, &format!("int {} {} {}", a, op, b), binop(op, int(*a), int(*b)));
        case(ctx, &format!("int {}.{}({})", a, op, b), mcall(int(*a), op, vec![int(*b)]));
        // operands that reach the operation through variables (nothing for a compiler to fold)
        case_in(ctx, &format!("int {} {} {} [variables]", a, op, b), vec![let_("x", int(*a)), let_("y", int(*b)), print("[", vec![]), print("~", vec![binop(op, var("x"), var("y"))]), print("]", vec![])]);
    } } }
    ctx.stage("cross-kind tables (6 receiver kinds x 6 argument kinds x 13 operators + get/set + arities)");
    let vals: Vec<(&str, E)> = vec![("null", E::Null), ("int", int(7)), ("zero", int(0)), ("one", int(1)), ("true", E::Bool(true)), ("false", E::Bool(false)),
        ("array", array(int(2), int(0))), ("object", object(None, vec![field("a", int(1))]))];
    for (rn, r) in &vals { for (an, a) in &vals { for op in OPERATORS {
        if ctx.take().is_none() { continue }
        case(ctx, &format!("cross {} {} {}", rn, op, an), binop(op, r.clone(), a.clone()));
        case_in_contexts(ctx, &format!("cross {} {} {}", rn, op, an), binop(op, r.clone(), a.clone()));
    } } }
    for (rn, r) in &vals { for name in ["+", "==", "&", "get", "set", "nosuch"] { for n in 0..=3usize {
        if ctx.take().is_none() { continue }
        let args: Vec<E> = (0..n).map(|i| int(i as i32)).collect();
        // the value of built-in `set` is unspecified (U3): observe success/failure only
        let e = mcall(r.clone(), name, args);
        let e = if name == "set" { block(vec![e, int(0)]) } else { e };
        case(ctx, &format!("arity {}.{}/{}", rn, name, n), e);
    } } }
    ctx.stage("array size / index kinds");
    for (an, a) in &vals {
        if ctx.take().is_none() { continue }
        case(ctx, &format!("array size {}", an), array(a.clone(), int(0)));
        case(ctx, &format!("array index {}", an), idx(array(int(2), int(5)), a.clone()));
    }
    for n in [-1, 0, 1, 2, i32::MIN] { if ctx.take().is_some() {
        case(ctx, &format!("array size {}", n), array(int(n), int(0)));
        case(ctx, &format!("array index {}", n), idx(array(int(2), int(5)), int(n)));
        case(ctx, &format!("array set index {}", n), block(vec![idxset(array(int(2), int(5)), int(n), int(1)), int(0)]));
    } }
}
