//! C03 — bytecode serialization and deserialization are mutually inverse.

use serde_json::json;
use super::super::cli;
use super::super::explore::Ctx;
use super::bcprops::{self, Which};

/// files on disk: `fml compile -o f.bc` + `fml execute f.bc` == `fml run` for programs whose
/// bytecode exceeds the reader's buffer, at 8 alignments
fn files(ctx: &mut Ctx) {
    ctx.stage("files larger than the read buffer (processes)");
    let exe = ctx.exe.clone();
    for pad in 0..(if ctx.quick() { 8 } else { 32 }) {
        for rows in [120usize, 260] {
            if ctx.take().is_none() { continue }
            let src = bcprops::big_program(pad, rows);
            let f = cli::write_file(&ctx.scratch, "big.fml", src.as_bytes());
            let ast = ctx.scratch.join("big.json"); let bcf = ctx.scratch.join("big.bc");
            let _ = std::fs::remove_file(&ast); let _ = std::fs::remove_file(&bcf);
            let run = cli::simple(&exe, &["run", f.to_str().unwrap()]);
            let p = cli::simple(&exe, &["parse", f.to_str().unwrap(), "-o", ast.to_str().unwrap(), "--format", "json"]);
            let c = cli::simple(&exe, &["compile", ast.to_str().unwrap(), "-o", bcf.to_str().unwrap()]);
            let e = cli::simple(&exe, &["execute", bcf.to_str().unwrap()]);
            let e2 = cli::run(&exe, &["execute"], Some(&std::fs::read(&bcf).unwrap_or_default()), None, &[], std::time::Duration::from_secs(20));
            ctx.count("programs", 1); ctx.count("cli_pipelines", 1);
            ctx.nontrivial(src.as_bytes());
            if !(run.ok() && p.ok() && c.ok() && e.ok() && e.stdout == run.stdout && e2.ok() && e2.stdout == run.stdout) {
                ctx.violation("roundtrip/file-behaviour-changes", "a program saved to a file and executed from it behaves differently from `fml run`",
                    json!({"text": src, "bytecode_bytes": std::fs::metadata(&bcf).map(|m| m.len()).unwrap_or(0), "pad": pad, "rows": rows,
                           "run_exit": run.code, "execute_exit": e.code, "execute_stdin_exit": e2.code, "execute_stderr": e.err().chars().take(300).collect::<String>(),
                           "cli": "fml parse x.fml -o x.json; fml compile x.json -o x.bc; fml execute x.bc"}));
            }
        }
    }
}

/// every constant-pool size 0..=600 through files and the real command line
fn pool_size_sweep(ctx: &mut Ctx) {
    ctx.stage("pool-size sweep through the command line (processes)");
    let exe = ctx.exe.clone();
    let mut first_bytes = std::collections::BTreeSet::new();
    for n in 0..=600usize {
        if ctx.take().is_none() { continue }
        let src = bcprops::sweep_program(n);
        let bytes = match super::super::pipeline::compile_source(&src) { Ok(b) => b, Err(_) => continue };
        first_bytes.insert(bytes[0]);
        let bcf = cli::write_file(&ctx.scratch, "sweep.bc", &bytes);
        let expected: String = (0..n).map(|i| format!("row {} of the sweep é\n", i)).collect();
        let e = cli::simple(&exe, &["execute", bcf.to_str().unwrap()]);
        let e2 = cli::run(&exe, &["execute"], Some(&bytes), None, &[], std::time::Duration::from_secs(20));
        ctx.count("programs", 1); ctx.count("cli_pipelines", 2);
        ctx.nontrivial(&n.to_le_bytes());
        for (how, r) in [("file", &e), ("stdin", &e2)] {
            if !r.ok() || r.stdout != expected.as_bytes() {
                ctx.violation("roundtrip/file-behaviour-changes", "a serialized program executed from a file behaves differently from the program that was serialized",
                    json!({"text": format!("null; print(\"row 0 of the sweep é\\n\"); ... ({} prints)", n), "bytecode_bytes": bytes.len(), "first_bytes_hex": super::super::codec::hex(&bytes[..bytes.len().min(8)]),
                           "input": how, "execute_exit": r.code, "execute_stderr": r.err().chars().take(300).collect::<String>(), "cli": "fml execute x.bc"}));
            }
        }
    }
    ctx.max("distinct_first_bytes_in_this_worker", first_bytes.len() as u64);
    // globals tables and class member tables at the refill boundary
    for kind in 1..=2usize {
        for n in 300..=560usize {
            if ctx.take().is_none() { continue }
            let (src, expected) = bcprops::sweep_family(kind, n);
            let bytes = match super::super::pipeline::compile_source(&src) { Ok(b) => b, Err(_) => continue };
            let bcf = cli::write_file(&ctx.scratch, "sweep.bc", &bytes);
            let e = cli::simple(&exe, &["execute", bcf.to_str().unwrap()]);
            ctx.count("programs", 1); ctx.count("cli_pipelines", 1);
            ctx.nontrivial(&[kind as u8, (n % 256) as u8, (n / 256) as u8]);
            if !e.ok() || e.stdout != expected.as_bytes() {
                ctx.violation("roundtrip/file-behaviour-changes", "a serialized program executed from a file behaves differently from the program that was serialized",
                    json!({"text": format!("{} ({})", if kind == 1 { "n top-level variables" } else { "one object with n fields" }, n), "bytecode_bytes": bytes.len(),
                           "execute_exit": e.code, "execute_stderr": e.err().chars().take(300).collect::<String>(), "cli": "fml execute x.bc"}));
            }
        }
    }
}

pub fn run(ctx: &mut Ctx) {
    bcprops::golden_files(ctx, Which::C03);
    files(ctx);
    pool_size_sweep(ctx);
    bcprops::direct_programs(ctx, Which::C03, if ctx.quick() { 3 } else { 4 });
    let (syn_n, sem_n) = if ctx.quick() { (4, 3) } else { (5, 4) };
    bcprops::compiler_outputs(ctx, Which::C03, syn_n, sem_n);
}
