//! C07 — parsing follows the documented precedence, associativity and layout rules.
//! (i) all 13^3 operator triples against an independent precedence climber; (ii) U-AST(n): every
//! harness tree printed minimally / safely / fully parenthesised parses to exactly that tree, and
//! the real AST unparsed again re-parses to itself; (iii) every token boundary x decoration.

use serde_json::json;
use super::super::explore::{for_each_owned, Ctx, Grammar};
use super::super::pipeline;
use super::super::syntax::*;

// ---------------------------------------------------------------- (i) precedence climber

fn climb(operands: &[E], ops: &[&str]) -> E {
    // classic precedence climbing over the README table, all levels left associative
    fn go(operands: &[E], ops: &[&str], pos: &mut usize, min: u8) -> E {
        let mut lhs = operands[*pos].clone();
        while *pos < ops.len() && level(ops[*pos]) >= min {
            let op = ops[*pos];
            *pos += 1;
            let rhs = go(operands, ops, pos, level(op) + 1);
            lhs = E::MCall(Box::new(lhs), op.to_string(), vec![rhs]);
        }
        lhs
    }
    let mut pos = 0;
    go(operands, ops, &mut pos, 1)
}

fn check_parse(ctx: &mut Ctx, what: &str, text: &str, expected: &[E]) -> bool {
    ctx.count("parses", 1);
    match pipeline::parse_to_e(text) {
        Ok(got) => {
            let exp: Vec<E> = expected.iter().map(|e| e.normalize()).collect();
            if got != exp {
                ctx.violation(&format!("parse/{}", what), "the parser builds a different tree than the documented rules prescribe",
                    json!({"text": text, "expected_tree": format!("{:?}", exp), "parsed_tree": format!("{:?}", got), "cli": "fml parse --format json <file>"}));
                return false;
            }
            true
        }
        Err(e) => {
            ctx.violation(&format!("parse/{}-rejected", what), "the parser rejects text of the documented language",
                json!({"text": text, "error": e.chars().take(300).collect::<String>(), "cli": "fml parse <file>"}));
            false
        }
    }
}

fn operators(ctx: &mut Ctx) {
    ctx.stage("operator triples, pairs, singles (13^3 + 13^2 + 13)");
    let names = ["a", "b", "c", "d"];
    let operands: Vec<E> = names.iter().map(|n| var(n)).collect();
    let mut combos: Vec<Vec<&str>> = vec![];
    for o1 in OPERATORS { combos.push(vec![o1]); for o2 in OPERATORS { combos.push(vec![o1, o2]); for o3 in OPERATORS { combos.push(vec![o1, o2, o3]) } } }
    for ops in combos {
        if ctx.take().is_none() { continue }
        let mut text = String::from("a");
        for (i, op) in ops.iter().enumerate() { text.push_str(&format!(" {} {}", op, names[i + 1])) }
        let expected = climb(&operands[..ops.len() + 1], &ops);
        check_parse(ctx, "operator-grouping", &text, &[expected.clone()]);
        // a op b is the method call a.op(b): the explicit method-call spelling must give the same tree
        if ops.len() == 1 { check_parse(ctx, "operator-is-method-call", &format!("a.{}(b)", ops[0]), &[expected.clone()]); }
        ctx.count("programs", 1);
        ctx.nontrivial(text.as_bytes());
        if ctx.want_sample() { ctx.sample(json!({"text": text, "tree": show_full(&[expected])})) }
    }
}

// ---------------------------------------------------------------- (ii) U-AST

const X: usize = 0;
fn p1(mut k: Vec<E>) -> E { k.pop().unwrap() }
fn p2(mut k: Vec<E>) -> (E, E) { let b = k.pop().unwrap(); let a = k.pop().unwrap(); (a, b) }
fn p3(mut k: Vec<E>) -> (E, E, E) { let c = k.pop().unwrap(); let b = k.pop().unwrap(); let a = k.pop().unwrap(); (a, b, c) }

pub fn ast_grammar() -> Grammar<E> {
    let mut g: Grammar<E> = Grammar::new(1);
    for leaf in [int(0), int(-1), int(42), E::Bool(true), E::Bool(false), E::Null, var("x"), var("iffy"), var("end_"), var("this"), var("_"),
                 call("f", vec![]), print("a~\\n", vec![]), object(None, vec![])] {
        g.leaf(X, move || leaf.clone());
    }
    g.prod(X, &[X], |k| let_("x", p1(k)));
    g.prod(X, &[X], |k| set("x", p1(k)));
    g.prod(X, &[X], |k| block(vec![p1(k)]));
    g.prod(X, &[X], |k| call("f", vec![p1(k)]));
    g.prod(X, &[X], |k| fget(p1(k), "a"));
    g.prod(X, &[X], |k| fget(fget(p1(k), "a"), "b"));
    g.prod(X, &[X], |k| mcall(p1(k), "m", vec![]));
    g.prod(X, &[X], |k| mcall(fget(p1(k), "a"), "print", vec![]));
    g.prod(X, &[X], |k| print("~", vec![p1(k)]));
    g.prod(X, &[X], |k| object(Some(p1(k)), vec![]));
    g.prod(X, &[X], |k| object(None, vec![field("a", p1(k))]));
    g.prod(X, &[X], |k| object(None, vec![method("m", &["p", "q"], p1(k))]));
    g.prod(X, &[X], |k| object(None, vec![method("<=", &["o"], p1(k)), field("z", int(1))]));
    for op in ["*", "%", "+", "-", "<", "==", ">=", "&", "|"] {
        g.prod(X, &[X, X], move |k| { let (a, b) = p2(k); binop(op, a, b) });
    }
    g.prod(X, &[X, X], |k| { let (a, b) = p2(k); mcall(a, "+", vec![b]) });
    g.prod(X, &[X, X], |k| { let (a, b) = p2(k); block(vec![a, b]) });
    g.prod(X, &[X, X], |k| { let (a, b) = p2(k); if_(a, b, None) });
    g.prod(X, &[X, X], |k| { let (a, b) = p2(k); while_(a, b) });
    g.prod(X, &[X, X], |k| { let (a, b) = p2(k); call("g", vec![a, b]) });
    g.prod(X, &[X, X], |k| { let (a, b) = p2(k); array(a, b) });
    g.prod(X, &[X, X], |k| { let (a, b) = p2(k); idx(a, b) });
    g.prod(X, &[X, X], |k| { let (a, b) = p2(k); idx(fget(a, "a"), b) });
    g.prod(X, &[X, X], |k| { let (a, b) = p2(k); fset(a, "a", b) });
    g.prod(X, &[X, X], |k| { let (a, b) = p2(k); fset(fget(a, "a"), "b", b) });
    g.prod(X, &[X, X], |k| { let (a, b) = p2(k); mcall(a, "m", vec![b]) });
    g.prod(X, &[X, X], |k| { let (a, b) = p2(k); print("~ \\\"~\\\"", vec![a, b]) });
    g.prod(X, &[X, X], |k| { let (a, b) = p2(k); object(Some(a), vec![field("a", b), method("m", &[], var("this"))]) });
    g.prod(X, &[X, X, X], |k| { let (a, b, c) = p3(k); if_(a, b, Some(c)) });
    g.prod(X, &[X, X, X], |k| { let (a, b, c) = p3(k); idxset(a, b, c) });
    g.prod(X, &[X, X, X], |k| { let (a, b, c) = p3(k); idxset(fget(a, "a"), b, c) });
    g.prod(X, &[X, X, X], |k| { let (a, b, c) = p3(k); block(vec![a, b, c]) });
    g.prod(X, &[X, X, X], |k| { let (a, b, c) = p3(k); mcall(a, "m", vec![b, c]) });
    g
}

fn program_of(e: &E, variant: usize) -> Vec<E> {
    match variant {
        0 => vec![e.clone()],
        1 => vec![fun("f", &["a", "b"], e.clone()), e.clone(), int(1)],
        _ => vec![let_("y", e.clone()), fun("print", &[], e.clone())],
    }
}

fn roundtrip(ctx: &mut Ctx, e: &E) {
    for variant in 0..2 {
        let prog = program_of(e, variant);
        ctx.count("programs", 1);
        let mut ok = true;
        for (mode, text) in [("minimal", show_min(&prog)), ("safe", show(&prog)), ("full", show_full(&prog))] {
            ok &= check_parse(ctx, &format!("tree-differs/{}-parentheses", mode), &text, &prog);
        }
        if !ok { continue }
        // unparse the REAL AST (converted once) and parse again
        let text = show_min(&prog);
        if let Ok(ast) = pipeline::parse(&text) {
            if let Some(back) = pipeline::ast_program_to_e(&ast) {
                for (mode, t2) in [("minimal", show_min(&back)), ("full", show_full(&back))] {
                    ctx.count("parses", 1);
                    match pipeline::parse(&t2) {
                        Ok(ast2) if pipeline::ast_eq(&ast, &ast2) => {}
                        Ok(_) => ctx.violation(&format!("parse/print-parse-roundtrip/{}", mode), "printing a parser-produced AST and parsing again yields a different AST", json!({"text": text, "reprinted": t2})),
                        Err(er) => ctx.violation(&format!("parse/print-parse-roundtrip/{}-rejected", mode), "the reprinted AST does not parse", json!({"text": text, "reprinted": t2, "error": er.chars().take(200).collect::<String>()})),
                    }
                }
            }
        }
        if e.size() >= 3 { ctx.nontrivial(text.as_bytes()) }
        if ctx.want_sample() { ctx.sample(json!({"minimal": text, "full": show_full(&prog)})) }
    }
}

// ---------------------------------------------------------------- (iii) decorations

/// tokens of text printed by our printer (never applied to arbitrary text)
pub fn tokens(text: &str) -> Vec<String> {
    let cs: Vec<char> = text.chars().collect();
    let mut out = vec![];
    let mut i = 0;
    while i < cs.len() {
        let c = cs[i];
        if c.is_whitespace() { i += 1; continue }
        let start = i;
        if c == '"' {
            i += 1;
            while i < cs.len() && cs[i] != '"' { if cs[i] == '\\' { i += 1 } i += 1 }
            i += 1;
        } else if c.is_ascii_alphabetic() || c == '_' {
            while i < cs.len() && (cs[i].is_ascii_alphanumeric() || cs[i] == '_') { i += 1 }
        } else if c.is_ascii_digit() || (c == '-' && i + 1 < cs.len() && cs[i + 1].is_ascii_digit()) {
            i += 1;
            while i < cs.len() && cs[i].is_ascii_digit() { i += 1 }
        } else {
            let two: String = cs[i..(i + 2).min(cs.len())].iter().collect();
            if ["==", "!=", "<=", ">=", "<-", "->"].contains(&two.as_str()) { i += 2 } else { i += 1 }
        }
        out.push(cs[start..i].iter().collect());
    }
    out
}

pub fn decorations() -> Vec<&'static str> {
    vec![" ", "\t", "\n", "\r\n", "/**/", "/***/", "/* * / */", "/* // */", "// c\n", "// /* \n", "/* λ👍 */", "// 👍\n",
         "/****/", "/** b **/", "/* a **/", "/*\n*\n*/", "/* \" */", "//\n", "/* a */ /* b */", "\n\n\t  \n"]
}

fn joined(toks: &[String], at: &[(usize, &str)]) -> String {
    // boundaries are numbered 0..=len: before the first token .. after the last one
    let mut s = String::new();
    for b in 0..=toks.len() {
        for (pos, d) in at { if *pos == b { s.push(' '); s.push_str(d); s.push(' ') } }
        if b < toks.len() { s.push_str(&toks[b]); s.push(' ') }
    }
    s
}

fn decorate(ctx: &mut Ctx, text: &str, two: bool) {
    let ast = match pipeline::parse(text) { Ok(a) => a, Err(_) => return };
    let toks = tokens(text);
    ctx.count("programs", 1);
    let plain = joined(&toks, &[]);
    let mut check = |ctx: &mut Ctx, t: String, what: &str, d: &str| {
        ctx.count("parses", 1);
        match pipeline::parse(&t) {
            Ok(a2) if pipeline::ast_eq(&ast, &a2) => {}
            Ok(_) => ctx.violation("layout/decoration-changes-the-tree", "whitespace/comments between tokens change the AST", json!({"text": text, "decorated": t, "decoration": d, "where": what})),
            Err(e) => ctx.violation("layout/decoration-rejected", "whitespace/comments between tokens make the parser reject the program", json!({"text": text, "decorated": t, "decoration": d, "where": what, "error": e.chars().take(200).collect::<String>()})),
        }
    };
    check(ctx, plain, "blank between all tokens", " ");
    let ds = decorations();
    for d in &ds {
        for b in 0..=toks.len() { check(ctx, joined(&toks, &[(b, d)]), &format!("boundary {}", b), d) }
        let everywhere: Vec<(usize, &str)> = (0..=toks.len()).map(|b| (b, *d)).collect();
        check(ctx, joined(&toks, &everywhere), "every boundary", d);
    }
    if two {
        for d1 in &ds { for d2 in &ds {
            for b1 in 0..=toks.len() { for b2 in b1..=toks.len() {
                check(ctx, joined(&toks, &[(b1, d1), (b2, d2)]), &format!("boundaries {} and {}", b1, b2), d1);
            } }
        } }
    }
    ctx.nontrivial(text.as_bytes());
}

/// the same rules observed where a user observes them: `fml parse --format json` on files and stdin.
/// Small decorated programs, and sources beyond the 8 KiB read buffer (strings and comments full of
/// multi-byte characters) with 0..4 blanks inserted in front, which must not change the tree.
fn through_the_command_line(ctx: &mut Ctx) {
    use super::super::cli;
    ctx.stage("`fml parse` on files and stdin (processes)");
    let exe = ctx.exe.clone();
    let mut texts: Vec<(String, String)> = vec![]; // (reference text, decorated text)
    let small = ["a + b * c", "if a then if b then 1 else 2", "o.f.g(1)[2] <- x.y(3)", "print(\"λ ~ \\\" \\n\", a | b & c == d)",
        "let o = object extends p begin let v = 1; function +(x) -> this.v + x end", "while a <= b do begin f(a); a <- a - 1 end"];
    let ds = decorations();
    for (i, s) in small.iter().enumerate() {
        let toks = tokens(s);
        texts.push((s.to_string(), s.to_string()));
        for (j, d) in ds.iter().enumerate() {
            let everywhere: Vec<(usize, &str)> = (0..=toks.len()).map(|b| (b, *d)).collect();
            texts.push((s.to_string(), joined(&toks, &everywhere)));
            texts.push((s.to_string(), joined(&toks, &[((i + j) % (toks.len() + 1), *d)])));
        }
    }
    for ch in ["é", "€", "𝒳"] {
        let mut body = String::new();
        for i in 0..400 { body.push_str(&format!("print(\"{} ~\\n\", {} + f(x) * {}); /* {} */ // {}\n", ch.repeat(9 + i % 4), i, i % 7, ch.repeat(5), ch.repeat(3))); }
        body.push_str("done");
        for pad in 0..4 { texts.push((body.clone(), format!("{}{}", " ".repeat(pad), body))); }
    }
    for (reference, decorated) in texts {
        if ctx.take().is_none() { continue }
        let ast = match pipeline::parse(&reference) { Ok(a) => a, Err(_) => continue };
        let f = cli::write_file(&ctx.scratch, "p.fml", decorated.as_bytes());
        let a = cli::simple(&exe, &["parse", f.to_str().unwrap(), "--format", "json"]);
        let b = cli::run(&exe, &["parse", "--format", "json"], Some(decorated.as_bytes()), None, &[], std::time::Duration::from_secs(30));
        ctx.count("programs", 1); ctx.count("cli_runs", 2);
        ctx.nontrivial(decorated.as_bytes());
        for (how, r) in [("file", &a), ("stdin", &b)] {
            let got = if r.ok() { pipeline::ast_from_text(&r.out(), pipeline::AstFormat::Json).ok() } else { None };
            if got.as_ref().map_or(true, |g| !pipeline::ast_eq(&ast, g)) {
                let short = |s: &str| if s.len() > 300 { format!("{}... ({} bytes)", s.chars().take(150).collect::<String>(), s.len()) } else { s.to_string() };
                ctx.violation("layout/cli-parse-differs", "`fml parse --format json` yields a different tree than the text denotes",
                    json!({"text": short(&reference), "decorated": short(&decorated), "input": how, "exit": r.code, "stderr": r.err().chars().take(200).collect::<String>(), "cli": "fml parse --format json <file>"}));
            }
        }
    }
}

pub fn run(ctx: &mut Ctx) {
    operators(ctx);
    through_the_command_line(ctx);
    let (n_rt, n_dec) = if ctx.quick() { (4, 3) } else { (5, 4) };
    let mut g = ast_grammar();
    g.prepare(n_rt);
    for n in 1..=n_rt {
        ctx.stage(&format!("U-AST(n={}) print/parse round trips", n));
        for_each_owned(ctx, &g, X, n, n, |ctx, _s, e| roundtrip(ctx, &e));
        ctx.note(&format!("U-AST(n={}): {} trees (exact count from the grammar) x 2 program shapes x 3 parenthesisations", n, g.count(X, n)));
        if ctx.capped { return }
    }
    ctx.stage("decorations: operator triples");
    let mut i = 0;
    for o1 in OPERATORS { for o2 in OPERATORS { for o3 in OPERATORS {
        i += 1;
        if ctx.quick() && i % 7 != 0 { continue }
        if ctx.take().is_none() { continue }
        decorate(ctx, &format!("a {} b {} c {} d", o1, o2, o3), false);
    } } }
    for n in 1..=n_dec {
        ctx.stage(&format!("decorations: U-AST(n={})", n));
        for_each_owned(ctx, &g, X, n, n, |ctx, _s, e| {
            let text = show_min(&program_of(&e, (ctx.index % 3) as usize));
            let two = !ctx.quick() && n <= 2;
            decorate(ctx, &text, two);
        });
        if ctx.capped { return }
    }
}
