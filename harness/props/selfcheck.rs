//! Binding the reference models to the maintainers' own expectations (DESIGN.md §3.4):
//! R must reproduce the `// >` lines of the repository's .fml corpus. A failure here is a
//! machinery error (exit 2), never a verdict about FML.

use super::super::pipeline;
use super::super::codec;
use super::super::refvm;
use super::super::refsem::{self, Fuel, Status};
use serde_json::json;

fn expectation(path: &std::path::Path) -> Option<String> {
    let grab = |text: &str| -> Option<String> {
        let mut out = String::new();
        let mut n = 0;
        for line in text.lines() {
            if let Some(i) = line.find("// >") {
                let rest = &line[i + 4..];
                let rest = rest.strip_prefix(' ').unwrap_or(rest);
                out.push_str(rest);
                out.push('\n');
                n += 1;
            }
        }
        if n > 0 { Some(out) } else { None }
    };
    // only the file's own `// >` lines: the .bc/.bc.txt of the same base name are different programs
    std::fs::read_to_string(path).ok().and_then(|t| grab(&t))
}

/// Expectations known to be stale, with the reason (nothing else may be skipped).
fn stale(_name: &str) -> Option<&'static str> { None }

/// Individual expectation lines that contradict the very statement they annotate (slips in the
/// corpus comments, visible by reading the statement); every other line must match.
fn stale_lines(name: &str) -> &'static [(&'static str, &'static str)] {
    match name {
        "tests/bc_test_3/operators.fml" => &[
            ("1 != null => true", "statement prints `1 == null` under a `!=` label"),
            ("true != null => true", "statement prints `true == null` under a `!=` label"),
            ("1 != true => true", "statement prints `1 == true` under a `!=` label"),
            ("null != null => false", "statement prints `null == null` under a `!=` label"),
            ("null != object() => null", "`null != object` is a boolean (README: unit supports != to other types); the comment says null")],
        "tests/bc_test_3/operators_compat.fml" => &[
            ("1.mod(-2) => 1", "format string is `~.mod(%) ~ => ~`"),
            ("1.neq(null) => true", "statement prints `1.eq(null)` under a `neq` label"),
            ("true.neq(null) => true", "statement prints `true.eq(null)` under a `neq` label"),
            ("1.neq(true) => true", "statement prints `1.eq(true)` under a `neq` label"),
            ("null.neq(null) => false", "statement prints `null.eq(null)` under a `neq` label"),
            ("null.neq(object()) => null", "`null.neq(object)` is a boolean; the comment says null")],
        "tests/bc_test_3/methods.fml" => &[("obj.x=null", "statement prints `obj.y=~`")],
        "tests/bc_test_3/object.fml" => &[
            ("object(..=object(), x=3, z=2, y=4)", "predates sorted field printing; contradicts C15 (lexicographic order)")],
        _ => &[],
    }
}

fn lines_agree(name: &str, reference: &str, expected: &str) -> bool {
    let r: Vec<&str> = reference.lines().map(|l| l.trim_end()).collect();
    let e: Vec<&str> = expected.lines().map(|l| l.trim_end()).collect();
    if r.len() != e.len() { eprintln!("{}: {} reference lines, {} expected", name, r.len(), e.len()); return false }
    for (a, b) in r.iter().zip(e.iter()) { if a != b && !stale_lines(name).iter().any(|(l, _)| l == b) { eprintln!("{}: reference {:?} expected {:?}", name, a, b) } }
    r.iter().zip(e.iter()).all(|(a, b)| a == b || stale_lines(name).iter().any(|(l, _)| l == b))
}

pub fn corpus_files(root: &str) -> Vec<std::path::PathBuf> {
    let mut v = vec![];
    for d in ["tests/misc", "tests/bc_test_1", "tests/bc_test_2", "tests/bc_test_3", "examples"] {
        if let Ok(rd) = std::fs::read_dir(format!("{}/{}", root, d)) {
            for e in rd.flatten() {
                let p = e.path();
                if p.extension().map_or(false, |x| x == "fml") { v.push(p) }
            }
        }
    }
    v.sort();
    v
}

/// M and B against the maintainers' golden bytecode files: B must decode and re-encode every
/// tests/bc_test_*/*.bc byte-identically, and M must print the `// >` lines of the .bc.txt next to it.
fn golden_bytecode(root: &str) -> (usize, Vec<serde_json::Value>, Vec<serde_json::Value>) {
    let mut agree = 0; let mut skipped = vec![]; let mut bad = vec![];
    for d in ["tests/bc_test_1", "tests/bc_test_2", "tests/bc_test_3"] {
        let mut files: Vec<std::path::PathBuf> = std::fs::read_dir(format!("{}/{}", root, d)).map(|rd| rd.flatten().map(|e| e.path()).filter(|p| p.extension().map_or(false, |x| x == "bc")).collect()).unwrap_or_default();
        files.sort();
        for f in files {
            let name = f.strip_prefix(root).unwrap_or(&f).to_string_lossy().trim_start_matches('/').to_string();
            let bytes = match std::fs::read(&f) { Ok(b) => b, Err(_) => continue };
            let prog = match codec::read(&bytes) { Ok(p) => p, Err(e) => { bad.push(json!({"file": name, "codec": format!("cannot decode: {}", e)})); continue } };
            if codec::write(&prog) != bytes { bad.push(json!({"file": name, "codec": "re-encoding differs"})); continue }
            let txt = f.with_extension("bc.txt");
            let exp: Option<String> = std::fs::read_to_string(&txt).ok().and_then(|t| {
                let ls: Vec<String> = t.lines().filter_map(|l| l.find("// >").map(|i| { let r = &l[i + 4..]; r.strip_prefix(' ').unwrap_or(r).to_string() })).collect();
                if ls.is_empty() { None } else { Some(ls.join("\n") + "\n") }
            });
            let exp = match exp { Some(e) => e, None => { skipped.push(json!({"file": name, "why": "no expectation in the repository"})); continue } };
            let m = refvm::run(&prog, 5_000_000);
            match m.status {
                Status::Unspec => skipped.push(json!({"file": name, "why": format!("outside the specified fragment: {}", m.reason)})),
                _ => {
                    let fml_name = name.replace(".bc", ".fml");
                    if m.status == Status::Ok && (lines_agree(&fml_name, &m.out, &exp) || lines_agree(&name, &m.out, &exp)) { agree += 1 }
                    else { bad.push(json!({"file": name, "status": format!("{:?}", m.status), "reason": m.reason, "machine": m.out, "expected": exp})) }
                }
            }
        }
    }
    (agree, skipped, bad)
}

pub fn run(args: &[String]) -> i32 {
    let root = args.get(0).map(|s| s.as_str()).unwrap_or("/repo");
    let verbose = args.iter().any(|a| a == "-v");
    let mut agree = 0; let mut skipped = vec![]; let mut bad = vec![];
    for p in corpus_files(root) {
        let name = p.strip_prefix(root).unwrap_or(&p).to_string_lossy().trim_start_matches('/').to_string();
        let src = match std::fs::read_to_string(&p) { Ok(s) => s, Err(_) => continue };
        let exp = match expectation(&p) { Some(e) => e, None => { skipped.push(json!({"file": name, "why": "no expectation in the repository"})); continue } };
        if let Some(why) = stale(&name) { skipped.push(json!({"file": name, "why": why})); continue }
        let stmts = match pipeline::parse_to_e(&src) { Ok(s) => s, Err(e) => { skipped.push(json!({"file": name, "why": format!("does not parse: {}", &e[..e.len().min(80)])})); continue } };
        let fuel = Fuel { steps: 5_000_000, depth: 2_000, cells: 200_000, array: 100_000, output: 1_000_000 };
        let r = refsem::run_with(&stmts, fuel, &[]);
        match r.status {
            Status::Unspec => skipped.push(json!({"file": name, "why": format!("outside the specified fragment: {}", r.reason)})),
            _ => {
                if r.status == Status::Ok && lines_agree(&name, &r.out, &exp) { agree += 1 }
                else { bad.push(json!({"file": name, "status": format!("{:?}", r.status), "reason": r.reason, "reference": r.out, "expected": exp})) }
            }
        }
    }
    let (magree, mskipped, mbad) = golden_bytecode(root);
    println!("{}", json!({"selfcheck": "R vs repository corpus; M and B vs golden bytecode", "agree": agree, "skipped": skipped, "disagree": bad,
        "golden_bytecode": {"agree": magree, "skipped": mskipped, "disagree": mbad}}));
    if verbose { for b in bad.iter().chain(mbad.iter()) { eprintln!("{}", serde_json::to_string_pretty(b).unwrap()) } }
    if bad.is_empty() && agree >= 10 && mbad.is_empty() && magree >= 10 { 0 } else { 2 }
}
