//! Binding the reference models to the maintainers' own expectations (DESIGN.md §3.4):
//! R must reproduce the `// >` lines of the repository's .fml corpus. A failure here is a
//! machinery error (exit 2), never a verdict about FML.

use super::super::pipeline;
use super::super::refsem::{self, Fuel, Status};
use serde_json::json;

fn expectation(path: &std::path::Path) -> Option<String> {
    let grab = |text: &str| -> Option<String> {
        let mut out = String::new();
        let mut n = 0;
        for line in text.lines() {
            if let Some(i) = line.find("// >") {
                let rest = &line[i + 4..];
                let rest = rest.strip_prefix(' ').unwrap_or(rest);
                out.push_str(rest);
                out.push('\n');
                n += 1;
            }
        }
        if n > 0 { Some(out) } else { None }
    };
    // only the file's own `// >` lines: the .bc/.bc.txt of the same base name are different programs
    std::fs::read_to_string(path).ok().and_then(|t| grab(&t))
}

/// Expectations known to be stale, with the reason (nothing else may be skipped).
fn stale(_name: &str) -> Option<&'static str> { None }

/// Individual expectation lines that contradict the very statement they annotate (slips in the
/// corpus comments, visible by reading the statement); every other line must match.
fn stale_lines(name: &str) -> &'static [(&'static str, &'static str)] {
    match name {
        "tests/bc_test_3/operators.fml" => &[
            ("1 != null => true", "statement prints `1 == null` under a `!=` label"),
            ("true != null => true", "statement prints `true == null` under a `!=` label"),
            ("1 != true => true", "statement prints `1 == true` under a `!=` label"),
            ("null != null => false", "statement prints `null == null` under a `!=` label"),
            ("null != object() => null", "`null != object` is a boolean (README: unit supports != to other types); the comment says null")],
        "tests/bc_test_3/operators_compat.fml" => &[
            ("1.mod(-2) => 1", "format string is `~.mod(%) ~ => ~`"),
            ("1.neq(null) => true", "statement prints `1.eq(null)` under a `neq` label"),
            ("true.neq(null) => true", "statement prints `true.eq(null)` under a `neq` label"),
            ("1.neq(true) => true", "statement prints `1.eq(true)` under a `neq` label"),
            ("null.neq(null) => false", "statement prints `null.eq(null)` under a `neq` label"),
            ("null.neq(object()) => null", "`null.neq(object)` is a boolean; the comment says null")],
        "tests/bc_test_3/methods.fml" => &[("obj.x=null", "statement prints `obj.y=~`")],
        "tests/bc_test_3/object.fml" => &[
            ("object(..=object(), x=3, z=2, y=4)", "predates sorted field printing; contradicts C15 (lexicographic order)")],
        _ => &[],
    }
}

fn lines_agree(name: &str, reference: &str, expected: &str) -> bool {
    let r: Vec<&str> = reference.lines().map(|l| l.trim_end()).collect();
    let e: Vec<&str> = expected.lines().map(|l| l.trim_end()).collect();
    if r.len() != e.len() { eprintln!("{}: {} reference lines, {} expected", name, r.len(), e.len()); return false }
    for (a, b) in r.iter().zip(e.iter()) { if a != b && !stale_lines(name).iter().any(|(l, _)| l == b) { eprintln!("{}: reference {:?} expected {:?}", name, a, b) } }
    r.iter().zip(e.iter()).all(|(a, b)| a == b || stale_lines(name).iter().any(|(l, _)| l == b))
}

pub fn corpus_files(root: &str) -> Vec<std::path::PathBuf> {
    let mut v = vec![];
    for d in ["tests/misc", "tests/bc_test_1", "tests/bc_test_2", "tests/bc_test_3", "examples"] {
        if let Ok(rd) = std::fs::read_dir(format!("{}/{}", root, d)) {
            for e in rd.flatten() {
                let p = e.path();
                if p.extension().map_or(false, |x| x == "fml") { v.push(p) }
            }
        }
    }
    v.sort();
    v
}

pub fn run(args: &[String]) -> i32 {
    let root = args.get(0).map(|s| s.as_str()).unwrap_or("/repo");
    let verbose = args.iter().any(|a| a == "-v");
    let mut agree = 0; let mut skipped = vec![]; let mut bad = vec![];
    for p in corpus_files(root) {
        let name = p.strip_prefix(root).unwrap_or(&p).to_string_lossy().trim_start_matches('/').to_string();
        let src = match std::fs::read_to_string(&p) { Ok(s) => s, Err(_) => continue };
        let exp = match expectation(&p) { Some(e) => e, None => { skipped.push(json!({"file": name, "why": "no expectation in the repository"})); continue } };
        if let Some(why) = stale(&name) { skipped.push(json!({"file": name, "why": why})); continue }
        let stmts = match pipeline::parse_to_e(&src) { Ok(s) => s, Err(e) => { skipped.push(json!({"file": name, "why": format!("does not parse: {}", &e[..e.len().min(80)])})); continue } };
        let fuel = Fuel { steps: 5_000_000, depth: 2_000, cells: 200_000, array: 100_000, output: 1_000_000 };
        let r = refsem::run_with(&stmts, fuel, &[]);
        match r.status {
            Status::Unspec => skipped.push(json!({"file": name, "why": format!("outside the specified fragment: {}", r.reason)})),
            _ => {
                if r.status == Status::Ok && lines_agree(&name, &r.out, &exp) { agree += 1 }
                else { bad.push(json!({"file": name, "status": format!("{:?}", r.status), "reason": r.reason, "reference": r.out, "expected": exp})) }
            }
        }
    }
    println!("{}", json!({"selfcheck": "R vs repository corpus", "agree": agree, "skipped": skipped, "disagree": bad}));
    if verbose { for b in &bad { eprintln!("{}", serde_json::to_string_pretty(b).unwrap()) } }
    if bad.is_empty() && agree >= 10 { 0 } else { 2 }
}
