//! Shared oracle of the R-based properties: run the reference semantics, replay the program on
//! the implementation (both paths of C01), compare stdout text and ok/fail only.

use serde_json::json;
use super::super::explore::Ctx;
use super::super::pipeline::{self, RunResult};
use super::super::refsem::{self, RefResult, Status};
use super::super::syntax::{show, E};

pub fn short_reason(r: &str) -> String {
    r.split_whitespace().next().unwrap_or("?").to_string()
}

pub struct Judged { pub reference: RefResult, pub compared: bool, pub agreed: bool }

/// Returns the reference result; records counters, samples and violations in ctx.
pub fn semantic_case(ctx: &mut Ctx, universe: &str, stmts: &[E]) -> Judged {
    let r = refsem::run(stmts);
    semantic_case_with(ctx, universe, stmts, r, true)
}

pub fn semantic_case_with(ctx: &mut Ctx, universe: &str, stmts: &[E], r: RefResult, loaded_path: bool) -> Judged {
    ctx.count("reference_steps", r.steps);
    if r.status == Status::Unspec {
        ctx.count("unspecified", 1);
        ctx.count(&format!("unspecified:{}", short_reason(&r.reason)), 1);
        return Judged { reference: r, compared: false, agreed: true };
    }
    ctx.count("states", r.steps);
    ctx.count("transitions", r.steps.saturating_sub(1));
    ctx.count(if r.status == Status::Ok { "reference_ok" } else { "reference_fail" }, 1);
    let text = show(stmts);
    let st = pipeline::run_source(&text, loaded_path);
    ctx.count("traces_validated_against_impl", 1);
    let expected_ok = r.status == Status::Ok;
    let mut agreed = true;
    let refused = st.refused.clone();
    let mut judge = |ctx: &mut Ctx, path: &str, actual: &RunResult| {
        if actual.ok != expected_ok || actual.out != r.out {
            agreed = false;
            let key = if actual.ok != expected_ok {
                if expected_ok { "semantics/reference-ok-implementation-fails" } else { "semantics/reference-fails-implementation-ok" }
            } else if expected_ok { "semantics/output-differs" } else { "semantics/output-before-fault-differs" };
            ctx.violation(key, &format!("{} path disagrees with the reference semantics", path), json!({
                "universe": universe, "path": path, "text": text,
                "expected": {"status": if expected_ok { "ok" } else { "fail" }, "stdout": r.out, "reason": r.reason},
                "actual": {"status": if actual.ok { "ok" } else { "fail" }, "stdout": actual.out, "error": actual.err},
                "cli": "fml run <file>",
            }));
        }
    };
    match (&st.direct, &refused) {
        (Some(d), _) => {
            let d = d.clone();
            judge(ctx, "compile+interpret", &d);
            if loaded_path {
                match &st.loaded {
                    Some(l) => { let l = l.clone(); if l != d { judge(ctx, "compile+serialize+load+interpret", &l) } else if !agreed { } }
                    None => {
                        let (stage, err) = refused.clone().unwrap_or(("?".into(), "?".into()));
                        agreed = false;
                        ctx.violation(&format!("staged/{}-refuses", stage), "save/load path refuses a program the direct path runs",
                            json!({"universe": universe, "text": text, "error": err}));
                    }
                }
            }
        }
        (None, Some((stage, err))) => {
            // refused before execution: behaves as a failing run with empty output
            let actual = RunResult { ok: false, out: String::new(), err: format!("{} stage: {}", stage, err) };
            judge(ctx, &format!("{} stage", stage), &actual);
        }
        (None, None) => unreachable!(),
    }
    if !r.out.is_empty() && r.constructs.count_ones() >= 2 { ctx.nontrivial(text.as_bytes()) }
    if ctx.want_sample() {
        ctx.sample(json!({"universe": universe, "text": text, "reference": {"status": format!("{:?}", r.status), "stdout": r.out}}));
    }
    Judged { reference: r, compared: true, agreed }
}
