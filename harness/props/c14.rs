//! C14 — object model. U-OBJ(d): parent chains of length 0..d ending in {null,int,bool,array,object},
//! every override subset per level, every call kind with right and wrong argument counts;
//! aliasing: every ordered pair of storage-location kinds. Oracle: R (U3, U4 apply).

use super::super::explore::Ctx;
use super::super::syntax::*;
use super::common::semantic_case;

const SUBSETS: [&[&str]; 8] = [&[], &["m"], &["+"], &["get", "set"], &["m", "+", "get", "set"], &["=="], &["get"], &["m", "=="]];

fn meth(name: &str, lvl: usize) -> Member {
    let tag = match name { "+" => "plus".to_string(), "==" => "eq".to_string(), n => n.to_string() };
    let params: &[&str] = match name { "m" => &[], "+" | "==" => &["k"], "get" => &["i"], _ => &["i", "w"] };
    method(name, params, block(vec![print(&format!("<{}{}>", tag, lvl), vec![]), int(lvl as i32)]))
}

fn calls() -> Vec<E> {
    let o = || var("o");
    vec![
        mcall(o(), "m", vec![]), binop("+", o(), int(1)), idx(o(), int(0)), idxset(o(), int(0), int(4)),
        mcall(o(), "+", vec![int(1)]), mcall(o(), "get", vec![int(1)]), mcall(o(), "set", vec![int(1), int(2)]),
        mcall(o(), "nosuch", vec![]), mcall(o(), "m", vec![int(1)]), mcall(o(), "get", vec![]), mcall(o(), "+", vec![]),
        mcall(o(), "+", vec![int(1), int(2)]), mcall(o(), "set", vec![int(1)]),
        binop("==", o(), int(5)), binop("!=", o(), E::Null), binop("&", o(), E::Bool(false)), binop("<", o(), int(9)),
        binop("-", o(), int(1)), mcall(o(), "==", vec![E::Bool(true)]),
    ]
}

fn chains(ctx: &mut Ctx, maxd: usize) {
    let terms: Vec<(&str, Option<E>)> = vec![
        ("null", None), ("int", Some(int(5))), ("bool", Some(E::Bool(true))), ("array", Some(array(int(2), int(9)))),
        ("object", Some(object(None, vec![field("z", int(0))]))),
    ];
    let cs = calls();
    for d in 0..=maxd {
        ctx.stage(&format!("U-OBJ chains(d={})", d));
        let combos = SUBSETS.len().pow(d as u32);
        for (tname, term) in &terms {
            for combo in 0..combos {
                let mut stmts = vec![let_("t", term.clone().unwrap_or(E::Null))];
                let mut prev = "t".to_string();
                let mut c = combo;
                for lvl in 0..d {
                    let sub = SUBSETS[c % SUBSETS.len()];
                    c /= SUBSETS.len();
                    let mut members = vec![field(&format!("f{}", lvl), int(lvl as i32))];
                    members.extend(sub.iter().map(|n| meth(n, lvl)));
                    let parent = if lvl == 0 && term.is_none() { None } else { Some(var(&prev)) };
                    let name = format!("o{}", lvl);
                    stmts.push(let_(&name, object(parent, members)));
                    prev = name;
                }
                stmts.push(let_("o", var(&prev)));
                for (ci, call) in cs.iter().enumerate() {
                    // contexts: value printed; (well-formed calls only) value discarded, and as the
                    // initialiser of a 2-element array - an ordinary call wherever it stands
                    for context in 0..(if ci < 7 { 3 } else { 1 }) {
                        if ctx.take().is_none() { continue }
                        let st = match context {
                            0 => if matches!(call, E::IdxSet(..)) || matches!(call, E::MCall(_, n, _) if n == "set") { call.clone() } else { print("=~\\n", vec![call.clone()]) },
                            1 => block(vec![call.clone(), print("discarded\\n", vec![])]),
                            _ => print("=~\\n", vec![array(int(2), call.clone())]),
                        };
                        let mut p = stmts.clone();
                        p.push(st);
                        p.push(print("|~ ~\\n", vec![var("t"), var("o")]));
                        semantic_case(ctx, "U-OBJ/chain", &p);
                        ctx.count("programs", 1);
                        ctx.count(&format!("terminal:{}", tname), 1);
                    }
                }
            }
        }
        if ctx.capped { break }
    }
}

/// aliasing: one array / object / primitive reachable through location kinds l1 and l2;
/// mutate through l1, observe through l2
fn aliasing(ctx: &mut Ctx) {
    ctx.stage("U-OBJ aliasing");
    // location kinds: global, local (in a block), parameter, field, array cell, this
    // a "location" is described by (setup statements given the shared value expression `s`, access path expression)
    let kinds = ["global", "local", "parameter", "field", "cell", "this"];
    let values: Vec<(&str, E)> = vec![
        ("array", array(int(2), int(0))),
        ("object", object(None, vec![field("c", int(0)), method("set", &["i", "w"], fset(var("this"), "c", var("w"))), method("bump", &[], fset(var("this"), "c", int(8)))])),
        ("inherited-array", object(Some(array(int(2), int(0))), vec![])),
        ("int", int(3)), ("bool", E::Bool(true)), ("null", E::Null),
    ];
    // mutations through a path expression p
    let mutations: Vec<(&str, Box<dyn Fn(E) -> E>)> = vec![
        ("cell-set", Box::new(|p| idxset(p, int(1), int(7)))),
        ("field-set", Box::new(|p| fset(p, "c", int(7)))),
        ("method-mutates", Box::new(|p| mcall(p, "bump", vec![]))),
        ("rebind", Box::new(|p| if let E::Var(n) = &p { set(n, int(99)) } else { E::Null })),
    ];
    for (vname, val) in &values {
        for (mname, mutate) in &mutations {
            for l1 in kinds.iter() {
                for l2 in kinds.iter() {
                    if ctx.take().is_none() { continue }
                    // shared value lives in global s; both locations are initialised from s
                    let mut top = vec![let_("s", val.clone())];
                    // holder objects / arrays for field and cell locations
                    top.push(let_("hf", object(None, vec![field("f", var("s"))])));
                    top.push(let_("hc", array(int(1), var("s"))));
                    let path = |k: &str, which: usize| -> E {
                        match k {
                            "global" => var("s"),
                            "local" => var(if which == 1 { "l1" } else { "l2" }),
                            "parameter" => var(if which == 1 { "p1" } else { "p2" }),
                            "field" => fget(var("hf"), "f"),
                            "cell" => idx(var("hc"), int(0)),
                            _ => var("this"),
                        }
                    };
                    let m = mutate(path(l1, 1));
                    if m == E::Null { continue }
                    let observe = print("(~ ~)", vec![path(l2, 2), var("s")]);
                    // body executed where locals, parameters and `this` all exist: a method of an
                    // object whose parent chain does not matter; `this` aliases s only when the
                    // receiver is s itself, so for `this` locations we call through s.
                    let body = block(vec![let_("l1", var("s")), let_("l2", var("s")), m, observe]);
                    let uses_this = *l1 == "this" || *l2 == "this";
                    if uses_this {
                        // receiver must be the shared value: only meaningful for the object value
                        if *vname != "object" { continue }
                        let with_run = object(None, vec![field("c", int(0)),
                            method("set", &["i", "w"], fset(var("this"), "c", var("w"))), method("bump", &[], fset(var("this"), "c", int(8))),
                            method("run", &["p1", "p2"], body)]);
                        top[0] = let_("s", with_run);
                        top.push(mcall(var("s"), "run", vec![var("s"), var("s")]));
                    } else {
                        top.push(let_("host", object(None, vec![method("run", &["p1", "p2"], body)])));
                        top.push(mcall(var("host"), "run", vec![var("s"), var("s")]));
                    }
                    top.push(print("|~ ~ ~\\n", vec![var("s"), fget(var("hf"), "f"), idx(var("hc"), int(0))]));
                    semantic_case(ctx, "U-OBJ/alias", &top);
                    ctx.count("programs", 1);
                    ctx.count(&format!("alias:{}:{}", vname, mname), 1);
                }
            }
        }
    }
}

/// object graphs with reference cycles (never printed): dispatch looks at the receiver and its parents
/// only, so what else is reachable from them cannot matter. 6 cycle shapes x 2 receivers x 9 calls.
fn cyclic_graphs(ctx: &mut Ctx) {
    ctx.stage("U-OBJ cyclic graphs: dispatch does not follow fields or cells");
    let base = || object(Some(int(5)), vec![field("link", E::Null), field("v", int(10)),
        method("m", &["k"], binop("+", fget(var("this"), "v"), var("k"))), method("get", &["i"], binop("*", var("i"), int(3))),
        method("set", &["i", "w"], fset(var("this"), "v", var("w")))]);
    let child = || object(Some(var("o")), vec![field("link", E::Null), field("w", int(1))]);
    let calls: Vec<E> = vec![
        mcall(var("r"), "m", vec![int(1)]), idx(var("r"), int(2)), idxset(var("r"), int(0), int(77)), binop("+", var("r"), int(1)),
        binop("<", var("r"), int(9)), mcall(var("r"), "nosuch", vec![]), mcall(var("r"), "m", vec![]), fget(var("r"), "v"), binop("==", var("r"), E::Null),
    ];
    for shape in 0..6usize {
        for recv in ["o", "c"] {
            for call in &calls {
                if ctx.take().is_none() { continue }
                let mut p = vec![let_("o", base()), let_("c", child()), let_("cells", array(int(2), E::Null))];
                match shape {
                    0 => p.push(fset(var("o"), "link", var("o"))),                                   // the parent points at itself
                    1 => p.push(fset(var("c"), "link", var("c"))),                                   // the receiver points at itself
                    2 => { p.push(fset(var("o"), "link", var("c"))); p.push(fset(var("c"), "link", var("o"))) } // parent and child point at each other
                    3 => { p.push(idxset(var("cells"), int(0), var("c"))); p.push(fset(var("c"), "link", var("cells"))) } // through an array cell
                    4 => { p.push(let_("sib", object(Some(var("o")), vec![field("link", var("c"))]))); p.push(fset(var("c"), "link", var("sib"))) } // two siblings
                    _ => { p.push(idxset(var("cells"), int(1), var("cells"))); p.push(fset(var("o"), "link", var("cells"))) } // an array that contains itself
                }
                p.push(let_("r", var(recv)));
                let is_store = matches!(call, E::IdxSet(..));
                p.push(if is_store { call.clone() } else { print("=~\\n", vec![call.clone()]) });
                p.push(print("|~ ~\\n", vec![fget(var("o"), "v"), fget(var("c"), "w")]));
                semantic_case(ctx, "U-OBJ/cyclic", &p);
                ctx.count("programs", 1);
            }
        }
    }
}

/// one call site, several receivers in turn: every ordered pair and triple of 7 receivers (own method,
/// same method with the fields laid out differently, inherited, integer-ended chain without the method,
/// different arity, override, operator/get members) through 5 kinds of site (method call, field read,
/// operator, index, field update), the site living in a function and in a loop body. What an earlier
/// receiver did at the site cannot matter to the next one.
fn polymorphic_sites(ctx: &mut Ctx) {
    ctx.stage("U-OBJ polymorphic call sites (pairs and triples of receivers)");
    let receivers = || vec![
        let_("r0", object(None, vec![field("v", int(1)), method("m", &[], int(10))])),
        let_("r1", object(None, vec![field("w", int(0)), field("v", int(2)), method("m", &[], int(20))])),
        let_("r2", object(Some(var("r0")), vec![])),
        let_("r3", object(Some(int(5)), vec![field("v", int(3))])),
        let_("r4", object(None, vec![method("m", &["k"], int(30)), field("v", int(4))])),
        let_("r5", object(Some(var("r1")), vec![method("m", &[], int(50))])),
        let_("r6", object(None, vec![method("+", &["k"], int(60)), method("get", &["i"], int(61)), field("v", int(6)), method("m", &[], fget(var("this"), "v"))])),
    ];
    let sites: Vec<E> = vec![
        mcall(var("o"), "m", vec![]), fget(var("o"), "v"), binop("+", var("o"), int(1)), idx(var("o"), int(0)),
        fset(var("o"), "v", binop("+", fget(var("o"), "v"), int(100))),
    ];
    let n = 7usize;
    let mut seqs: Vec<Vec<usize>> = vec![];
    for a in 0..n { for b in 0..n { seqs.push(vec![a, b]); for c in 0..n { seqs.push(vec![a, b, c]) } } }
    for seq in &seqs {
        for site in &sites {
            for in_loop in [false, true] {
                if ctx.take().is_none() { continue }
                let mut p = receivers();
                if in_loop {
                    p.push(let_("rs", array(int(seq.len() as i32), E::Null)));
                    for (i, r) in seq.iter().enumerate() { p.push(idxset(var("rs"), int(i as i32), var(&format!("r{}", r)))) }
                    p.push(let_("i", int(0)));
                    p.push(while_(binop("<", var("i"), int(seq.len() as i32)), block(vec![
                        let_("o", idx(var("rs"), var("i"))), print("~;", vec![site.clone()]), set("i", binop("+", var("i"), int(1)))])));
                } else {
                    p.push(fun("site", &["o"], site.clone()));
                    for r in seq { p.push(print("~;", vec![call("site", vec![var(&format!("r{}", r))])])) }
                }
                p.push(print("|~ ~ ~\\n", vec![fget(var("r0"), "v"), fget(var("r1"), "v"), fget(var("r6"), "v")]));
                semantic_case(ctx, "U-OBJ/site", &p);
                ctx.count("programs", 1);
            }
        }
    }
}

/// members named like the Feeny word spellings of the operators (add, eq, le, and, ...) are ordinary
/// members: found by that name on the receiver or its parents before any built-in at the end of the
/// chain is asked, and never found under the operator symbol. 13 names x 3 chain ends x own/inherited x 4 calls.
fn word_named_members(ctx: &mut Ctx) {
    ctx.stage("U-OBJ members named like the word spellings of operators");
    let words = [("add", "+"), ("sub", "-"), ("mul", "*"), ("div", "/"), ("mod", "%"), ("le", "<="), ("ge", ">="), ("lt", "<"), ("gt", ">"), ("eq", "=="), ("neq", "!="), ("and", "&"), ("or", "|")];
    let ends: Vec<(&str, Option<E>)> = vec![("null", None), ("int", Some(int(5))), ("bool", Some(E::Bool(true)))];
    for (word, symbol) in words {
        for (_ename, end) in &ends {
            for inherited in [false, true] {
                for call in 0..4usize {
                    if ctx.take().is_none() { continue }
                    let user = method(word, &["k"], block(vec![print("<user ~>", vec![var("k")]), int(1000)])); // no `this`: U4 would make the inherited variant unspecified
                    let mut p_members = vec![field("v", int(0))];
                    let mut o_members = vec![field("w", int(0))];
                    if inherited { p_members.push(user) } else { o_members.push(user) }
                    let mut prog = vec![let_("p", object(end.clone(), p_members)), let_("o", object(Some(var("p")), o_members))];
                    let arg = if symbol == "&" || symbol == "|" { E::Bool(false) } else { int(1) };
                    prog.push(print("=~\\n", vec![match call {
                        0 => mcall(var("o"), word, vec![arg.clone()]),            // the user's member, by its name
                        1 => binop(symbol, var("o"), arg.clone()),                 // the operator: the user's member is NOT it
                        2 => mcall(var("p"), word, vec![arg.clone()]),             // through the parent only
                        _ => mcall(var("o"), word, vec![]),                        // wrong argument count for the user's member
                    }]));
                    prog.push(print("|~ ~\\n", vec![fget(var("o"), "w"), fget(var("p"), "v")]));
                    semantic_case(ctx, "U-OBJ/word", &prog);
                    ctx.count("programs", 1);
                }
            }
        }
    }
}

pub fn run(ctx: &mut Ctx) {
    let d = if ctx.quick() { 4 } else { 5 };
    aliasing(ctx);
    word_named_members(ctx);
    cyclic_graphs(ctx);
    polymorphic_sites(ctx);
    chains(ctx, d);
}
