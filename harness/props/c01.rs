//! C01 — `fml run` prints what the source semantics prescribe.
//! CORPUS, U-PAIR(d), U-SEM(n); both execution paths in-process; a CLI subset as processes.

use serde_json::json;
use super::super::cli;
use super::super::explore::{for_each_owned, Ctx};
use super::super::pipeline;
use super::super::refsem::{self, Fuel, Status};
use super::super::syntax::*;
use super::super::universes::{pair, sem};
use super::common::{semantic_case, semantic_case_with};
use super::selfcheck::corpus_files;

/// the same program as a real process: stdout identical to the reference, exit 0 iff ok
pub fn cli_case(ctx: &mut Ctx, universe: &str, stmts: &[E], r: &refsem::RefResult) {
    let text = show(stmts);
    let f = cli::write_file(&ctx.scratch, "case.fml", text.as_bytes());
    let res = cli::simple(&ctx.exe.clone(), &["run", f.to_str().unwrap()]);
    ctx.count("cli_runs", 1);
    let expected_ok = r.status == Status::Ok;
    if !res.clean_exit() || res.ok() != expected_ok || res.out() != r.out {
        ctx.violation("cli/run-differs-from-reference", "`fml run` as a process disagrees with the reference semantics", json!({
            "universe": universe, "text": text, "expected": {"status": if expected_ok { "ok" } else { "fail" }, "stdout": r.out},
            "actual": {"exit_code": res.code, "signal": res.signal, "stdout": res.out(), "stderr": res.err().chars().take(300).collect::<String>()},
            "cli": "fml run <file>"}));
    }
}

pub fn corpus(ctx: &mut Ctx) {
    let root = std::env::var("VERIF_REPO").unwrap_or("/repo".to_string());
    for p in corpus_files(&root) {
        if ctx.take().is_none() { continue }
        let src = match std::fs::read_to_string(&p) { Ok(s) => s, Err(_) => continue };
        let stmts = match pipeline::parse_to_e(&src) { Ok(s) => s, Err(_) => { ctx.count("corpus_unparsable", 1); continue } };
        let fuel = Fuel { steps: 5_000_000, depth: 2_000, cells: 200_000, array: 100_000, output: 1_000_000 };
        let r = refsem::run_with(&stmts, fuel, &[]);
        ctx.count("corpus_files", 1);
        let j = semantic_case_with(ctx, "CORPUS", &stmts, r, true);
        if j.compared { cli_case(ctx, "CORPUS", &stmts, &j.reference) }
    }
}

pub fn pairs(ctx: &mut Ctx, depth: usize) {
    let ts = pair::templates();
    let fs = pair::fillers();
    // expressions: T(F) for depth 2, T1(T2(F)) for depth 3 (T2 ranges over the non-trivial templates)
    let inner: Vec<E> = if depth <= 2 { vec![pair::hole()] } else { ts[1..].to_vec() };
    for t1 in &ts {
        for t2 in &inner {
            let shape = pair::fill(t1, t2);
            for f in &fs {
                // one index per expression; the eight placements are evaluated together
                if ctx.take().is_none() { continue }
                let e = pair::fill(&shape, f);
                for kept in [false, true] {
                    for frame in 0..4 {
                        // quick tier, depth 3: four of the eight placements (every frame kind once, kept in
                        // two of them and discarded in the other two); depth 2 and the thorough tier: all eight
                        if depth >= 3 && ctx.quick() && (frame % 2 == 0) != kept { continue }
                        let prog = pair::in_frame(&e, kept, frame);
                        let j = semantic_case(ctx, "U-PAIR", &prog);
                        ctx.count("programs", 1);
                        ctx.count(if kept { "placement:kept" } else { "placement:discarded" }, 1);
                        if j.compared && frame == 0 && !kept && ctx.index % 64 == 1 { cli_case(ctx, "U-PAIR", &prog, &j.reference) }
                    }
                }
            }
        }
    }
}

pub fn sems(ctx: &mut Ctx, lo: usize, hi: usize) {
    let mut g = sem::grammar();
    g.prepare(hi);
    for n in lo..=hi {
        ctx.stage(&format!("U-SEM(n={})", n));
        for_each_owned(ctx, &g, sem::PROG, n, n, |ctx, _size, prog| {
            for frame in 0..3 {
                let p = sem::program(&prog, frame);
                let j = semantic_case(ctx, "U-SEM", &p);
                ctx.count("programs", 1);
                if j.compared && frame == 0 && ctx.index % 512 == 1 { cli_case(ctx, "U-SEM", &p, &j.reference) }
            }
        });
        ctx.note(&format!("U-SEM(n={}): {} statement lists (exact count from the grammar) x 3 frames", n, g.count(sem::PROG, n)));
        if ctx.capped { break }
    }
}

pub fn scale(ctx: &mut Ctx) {
    ctx.stage("U-SCALE (255/256/257/300 of every countable thing)");
    let mut all = super::super::universes::scale::programs(!ctx.quick());
    all.extend(super::super::universes::scale::programs_u16());
    for (name, prog) in all {
        if ctx.take().is_none() { continue }
        let fuel = Fuel { steps: 2_000_000, depth: 2_000, cells: 100_000, array: 10_000, output: 1_000_000 };
        let r = refsem::run_with(&prog, fuel, &[]);
        ctx.count("programs", 1);
        ctx.count(&format!("scale:{:?}", r.status), 1);
        if r.status == Status::Unspec { ctx.note(&format!("U-SCALE `{}` is unspecified: {}", name, r.reason)) }
        let j = semantic_case_with(ctx, "U-SCALE", &prog, r, true);
        if j.compared { cli_case(ctx, "U-SCALE", &prog, &j.reference) }
    }
}

pub fn run(ctx: &mut Ctx) {
    ctx.stage("CORPUS");
    corpus(ctx);
    scale(ctx);
    ctx.stage("U-PAIR(d=2)");
    pairs(ctx, 2);
    ctx.stage("U-PAIR(d=3)");
    pairs(ctx, 3);
    let hi = if ctx.quick() { 3 } else { 5 };
    sems(ctx, 1, hi);
}
