//! C15 — print: positional substitution, escapes, canonical value rendering.
//! U-FMT(L): all format strings of length <= L over {~ \ n " a LF é} x 0..3 arguments, at source
//! level (those the lexer admits). U-VAL(d): all values to depth d. Oracle: R's formatter/renderer.
//! (The bytecode-level half of U-FMT is run by C05's abstract machine stage.)

use super::super::explore::{for_each_owned, Ctx, Grammar};
use super::super::syntax::*;
use super::common::semantic_case;

pub const ALPHA: [char; 7] = ['~', '\\', 'n', '"', 'a', '\n', 'é'];

/// does the FML lexer admit this raw text between quotes?  ("([^\\"]|\\[~ntr\\"])*")
pub fn lexable(s: &str) -> bool {
    let mut it = s.chars();
    while let Some(c) = it.next() {
        match c {
            '"' => return false,
            '\\' => match it.next() { Some('~') | Some('n') | Some('t') | Some('r') | Some('\\') | Some('"') => {} _ => return false },
            _ => {}
        }
    }
    true
}

pub fn strings(len: usize) -> Vec<String> {
    let mut out = vec![String::new()];
    let mut frontier = vec![String::new()];
    for _ in 0..len {
        let mut next = vec![];
        for s in &frontier { for c in ALPHA { let mut t = s.clone(); t.push(c); next.push(t) } }
        out.extend(next.iter().cloned());
        frontier = next;
    }
    out
}

fn formats(ctx: &mut Ctx, len: usize) {
    ctx.stage(&format!("U-FMT(L={}) source level", len));
    let extra = ["\\t", "\\r", "a\\tb~\\r", "~~~", "\\~~\\~", "é~é", "👍~"];
    let mut all = strings(len);
    all.extend(extra.iter().map(|s| s.to_string()));
    // every escape letter: all strings of length <= 4 over the alphabet extended by t and r
    {
        let wide: Vec<char> = ALPHA.iter().copied().chain(['t', 'r']).collect();
        let mut frontier = vec![String::new()];
        for _ in 0..len.min(4) {
            let mut next = vec![];
            for s in &frontier { for c in &wide { let mut t = s.clone(); t.push(*c); next.push(t) } }
            all.extend(next.iter().filter(|t| t.contains('t') || t.contains('r')).cloned());
            frontier = next;
        }
    }
    let mut admitted = 0u64;
    for s in &all {
        if !lexable(s) { ctx.count("fmt_not_lexable", 1); continue }
        admitted += 1;
        for k in 0..4usize {
            if ctx.take().is_none() { continue }
            let args: Vec<E> = (0..k).map(|i| int(10 + i as i32)).collect();
            // the value of print (null) is printed by an enclosing print; markers around it
            let prog = vec![print("[", vec![]), print("|~|", vec![print(s, args)]), print("]", vec![])];
            semantic_case(ctx, "U-FMT", &prog);
            ctx.count("programs", 1);
        }
    }
    ctx.note(&format!("U-FMT(L={}): {} strings, {} admitted by the lexer, x 4 argument counts", len, all.len(), admitted));
}

const LEAF: usize = 0;
const VAL: usize = 1;

fn value_grammar() -> Grammar<E> {
    let mut g: Grammar<E> = Grammar::new(2);
    g.leaf(LEAF, || E::Null);
    g.leaf(LEAF, || E::Bool(true));
    g.leaf(LEAF, || int(-1));
    g.leaf(LEAF, || int(0));
    g.prod_w(VAL, 0, &[LEAF], |mut k| k.pop().unwrap());
    // arrays of length 0..2 (cells share one initializer value; distinct cells come from nesting below)
    g.prod(VAL, &[VAL], |mut k| array(int(0), k.pop().unwrap()));
    g.prod(VAL, &[VAL], |mut k| array(int(1), k.pop().unwrap()));
    g.prod(VAL, &[VAL], |mut k| array(int(2), k.pop().unwrap()));
    // objects: every ordered selection of <= 3 field names out of 6, parent in {none, int, array, object}
    let names = ["b", "a", "ab", "B", "_", "a1"];
    g.leaf(VAL, || object(None, vec![]));
    for p in 0..4usize {
        let parent = move || match p { 0 => None, 1 => Some(int(3)), 2 => Some(array(int(1), int(4))), _ => Some(object(None, vec![field("p", int(1))])) };
        if p > 0 { g.leaf(VAL, move || object(parent(), vec![])) }
        for i in 0..6 {
            g.prod(VAL, &[VAL], move |mut k| object(parent(), vec![field(names[i], k.pop().unwrap())]));
            for j in 0..6 {
                if j == i { continue }
                g.prod(VAL, &[VAL, LEAF], move |mut k| { let y = k.pop().unwrap(); let x = k.pop().unwrap(); object(parent(), vec![field(names[i], x), field(names[j], y)]) });
                for l in 0..6 {
                    if l == i || l == j { continue }
                    g.prod(VAL, &[LEAF, LEAF, LEAF], move |mut k| {
                        let z = k.pop().unwrap(); let y = k.pop().unwrap(); let x = k.pop().unwrap();
                        object(parent(), vec![field(names[i], x), field(names[j], y), field(names[l], z)])
                    });
                }
            }
        }
    }
    // object with a parent that is itself an arbitrary value and a method (methods are not rendered)
    g.prod(VAL, &[VAL, VAL], |mut k| { let y = k.pop().unwrap(); let x = k.pop().unwrap(); object(Some(x), vec![field("f", y), method("m", &[], int(1))]) });
    g
}

fn values(ctx: &mut Ctx, size: usize) {
    let mut g = value_grammar();
    g.prepare(size);
    for n in 1..=size {
        ctx.stage(&format!("U-VAL(size={})", n));
        for_each_owned(ctx, &g, VAL, n, n, |ctx, _s, v| {
            let prog = vec![print("~\\n", vec![v.clone()]), let_("x", v), print("~ and ~\\n", vec![var("x"), var("x")]),
                // the same value reachable twice from ONE argument: sharing is not a cycle
                print("~\\n", vec![array(int(2), var("x"))]),
                print("~\\n", vec![object(Some(var("x")), vec![field("a", var("x")), field("b", array(int(1), var("x")))])])];
            semantic_case(ctx, "U-VAL", &prog);
            ctx.count("programs", 1);
        });
        ctx.note(&format!("U-VAL(size={}): {} values", n, g.count(VAL, n)));
        if ctx.capped { break }
    }
}

/// large single prints through the real command line: stdout must carry every byte
fn large_outputs(ctx: &mut Ctx) {
    ctx.stage("large single prints through the real stdout (processes)");
    let exe = ctx.exe.clone();
    let mut progs: Vec<Vec<E>> = vec![];
    for n in [60usize, 64, 200, 300, 5000] {
        // "heading:\n" followed by a rendered array of n elements (6 bytes per element + brackets)
        progs.push(vec![print("heading:\\n~", vec![array(int(n as i32), int(12345))])]);
        progs.push(vec![print("~\\nend", vec![array(int(n as i32), int(12345))])]);
        progs.push(vec![print("~", vec![array(int(n as i32), int(12345))]), print("\\ntail\\n", vec![])]);
        progs.push(vec![let_("a", array(int(n as i32), array(int(3), E::Null))), print("a\\n~\\n~", vec![var("a"), var("a")])]);
    }
    for len in [1000usize, 1023, 1024, 1025, 4096, 70000] {
        progs.push(vec![print(&format!("x\\n{}", "y".repeat(len)), vec![])]);
        progs.push(vec![print(&format!("{}\\n{}", "z".repeat(len), "y".repeat(len)), vec![]), print("!", vec![])]);
    }
    for prog in progs {
        if ctx.take().is_none() { continue }
        let mut fuel = super::super::refsem::Fuel::default();
        fuel.array = 10_000; fuel.output = 1_000_000; fuel.steps = 200_000;
        let r = super::super::refsem::run_with(&prog, fuel, &[]);
        if r.status != super::super::refsem::Status::Ok { ctx.count("unspecified", 1); continue }
        let text = show(&prog);
        let f = super::super::cli::write_file(&ctx.scratch, "big.fml", text.as_bytes());
        let res = super::super::cli::simple(&exe, &["run", f.to_str().unwrap()]);
        // and redirected to a file by a shell
        let outf = ctx.scratch.join("big.out");
        let sh = std::process::Command::new("sh").arg("-c").arg(format!("'{}' run '{}' > '{}'", exe.display(), f.display(), outf.display())).env("RUST_BACKTRACE", "0").status();
        let redirected = std::fs::read(&outf).unwrap_or_default();
        ctx.count("programs", 1); ctx.count("cli_runs", 2);
        ctx.nontrivial(text.as_bytes());
        for (how, ok, bytes) in [("pipe", res.ok(), res.stdout.clone()), ("redirected to a file", sh.map(|s| s.success()).unwrap_or(false), redirected)] {
            if !ok || bytes != r.out.as_bytes() {
                ctx.violation("print/large-output-incomplete", "`fml run` does not deliver the complete text of a large print to stdout",
                    serde_json::json!({"text": if text.len() > 300 { format!("{}... ({} chars)", &text[..150], text.len()) } else { text.clone() }, "stdout": how, "expected_bytes": r.out.len(), "received_bytes": bytes.len(), "exit_ok": ok, "cli": "fml run <file> > out.txt"}));
            }
        }
    }
}

/// print, mutate something below the printed value, print again: the text always shows the heap as it
/// is now. Three levels of containers (object or array each), five mutation routes, three first prints.
fn print_after_mutation(ctx: &mut Ctx) {
    ctx.stage("print - mutate - print again");
    // level kinds: true = object (field), false = array (index 1)
    let wrap = |obj: bool, inner: E, extra: E| if obj { object(None, vec![field("in", inner), field("tag", extra)]) } else { block(vec![let_("t", array(int(2), extra)), idxset(var("t"), int(1), inner), var("t")]) };
    let step = |obj: bool, from: E| if obj { fget(from, "in") } else { idx(from, int(1)) };
    for shape in 0..8usize {
        let kinds = [shape & 1 != 0, shape & 2 != 0, shape & 4 != 0];
        for route in 0..5usize {
            for first in 0..3usize {
                if ctx.take().is_none() { continue }
                // leaf container `hi` holds the mutated slot
                let hi = if kinds[2] { object(None, vec![field("x", int(4)), field("y", int(3))]) } else { array(int(2), int(4)) };
                let mid = wrap(kinds[1], var("hi"), E::Bool(false));
                let root = wrap(kinds[0], var("mid"), E::Null);
                let path_mid = step(kinds[0], var("root"));
                let path_hi = step(kinds[1], path_mid.clone());
                let write = |target: E| if kinds[2] { fset(target, "x", int(14)) } else { idxset(target, int(0), int(14)) };
                let mut prog = vec![let_("hi", hi), let_("mid", mid), let_("root", root),
                    let_("host", object(Some(var("root")), vec![field("r", var("root")), method("grow", &[], write(step(kinds[1], step(kinds[0], fget(var("this"), "r")))))]))];
                prog.push(match first { 0 => print("1: ~\\n", vec![var("root")]), 1 => print("1: ~ ~\\n", vec![path_mid.clone(), var("root")]), _ => print("1: ~ ~ ~\\n", vec![var("host"), var("root"), path_hi.clone()]) });
                prog.push(match route {
                    0 => write(path_hi.clone()),
                    1 => write(var("hi")),
                    2 => block(vec![let_("alias", path_mid.clone()), write(step(kinds[1], var("alias")))]),
                    3 => mcall(var("host"), "grow", vec![]),
                    _ => fun("poke", &["p"], write(step(kinds[1], step(kinds[0], var("p"))))),
                });
                if route == 4 { prog.push(call("poke", vec![var("root")])) }
                prog.push(print("2: ~ | ~ | ~ | ~\\n", vec![var("root"), path_mid.clone(), path_hi.clone(), var("host")]));
                // a second round: mutate again, print again
                prog.push(if kinds[2] { fset(var("hi"), "y", var("mid")) } else { idxset(var("hi"), int(1), E::Null) });
                if !kinds[2] { prog.push(print("3: ~ | ~\\n", vec![var("root"), var("host")])) }
                semantic_case(ctx, "print-after-mutation", &prog);
                ctx.count("programs", 1);
            }
        }
    }
}

/// sources larger than the CLI's 8 KiB read buffer whose format strings consist almost entirely of
/// 2-, 3- and 4-byte characters, at four byte alignments, as file and on stdin
fn large_sources(ctx: &mut Ctx) {
    ctx.stage("large non-ASCII sources through the real command line (processes)");
    let exe = ctx.exe.clone();
    for (ci, ch) in ["é", "€", "𝒳", "aé€𝒳"].iter().enumerate() {
        for pad in 0..4usize {
            if ctx.take().is_none() { continue }
            let mut prog: Vec<E> = vec![print(&"p".repeat(pad), vec![])];
            for i in 0..420 { prog.push(print(&format!("{}{}\\n", ch.repeat(12 + (i % 5)), i), vec![])) }
            let mut fuel = super::super::refsem::Fuel::default();
            fuel.output = 1_000_000; fuel.steps = 200_000;
            let r = super::super::refsem::run_with(&prog, fuel, &[]);
            if r.status != super::super::refsem::Status::Ok { ctx.count("unspecified", 1); continue }
            let text = show(&prog);
            let f = super::super::cli::write_file(&ctx.scratch, "src.fml", text.as_bytes());
            let a = super::super::cli::simple(&exe, &["run", f.to_str().unwrap()]);
            let b = super::super::cli::run(&exe, &["run"], Some(text.as_bytes()), None, &[], std::time::Duration::from_secs(30));
            ctx.count("programs", 1); ctx.count("cli_runs", 2);
            ctx.nontrivial(format!("{}:{}", ci, pad).as_bytes());
            for (how, res) in [("file", &a), ("stdin", &b)] {
                if !res.ok() || res.stdout != r.out.as_bytes() {
                    ctx.violation("print/non-ascii-source-corrupted", "`fml run` prints different text than the source's format strings contain (every character must reach the output unchanged)",
                        serde_json::json!({"text": format!("{}... ({} bytes, rows of `{}`)", &text[..text.char_indices().nth(60).map_or(text.len(), |x| x.0)], text.len(), ch), "input": how, "expected_bytes": r.out.len(), "received_bytes": res.stdout.len(), "exit": res.code, "cli": "fml run <file>"}));
                }
            }
        }
    }
}

pub fn run(ctx: &mut Ctx) {
    large_outputs(ctx);
    large_sources(ctx);
    print_after_mutation(ctx);
    formats(ctx, if ctx.quick() { 6 } else { 7 });
    values(ctx, if ctx.quick() { 4 } else { 5 });
}
