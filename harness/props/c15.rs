//! C15 — print: positional substitution, escapes, canonical value rendering.
//! U-FMT(L): all format strings of length <= L over {~ \ n " a LF é} x 0..3 arguments, at source
//! level (those the lexer admits). U-VAL(d): all values to depth d. Oracle: R's formatter/renderer.
//! (The bytecode-level half of U-FMT is run by C05's abstract machine stage.)

use super::super::explore::{for_each_owned, Ctx, Grammar};
use super::super::syntax::*;
use super::common::semantic_case;

pub const ALPHA: [char; 7] = ['~', '\\', 'n', '"', 'a', '\n', 'é'];

/// does the FML lexer admit this raw text between quotes?  ("([^\\"]|\\[~ntr\\"])*")
pub fn lexable(s: &str) -> bool {
    let mut it = s.chars();
    while let Some(c) = it.next() {
        match c {
            '"' => return false,
            '\\' => match it.next() { Some('~') | Some('n') | Some('t') | Some('r') | Some('\\') | Some('"') => {} _ => return false },
            _ => {}
        }
    }
    true
}

pub fn strings(len: usize) -> Vec<String> {
    let mut out = vec![String::new()];
    let mut frontier = vec![String::new()];
    for _ in 0..len {
        let mut next = vec![];
        for s in &frontier { for c in ALPHA { let mut t = s.clone(); t.push(c); next.push(t) } }
        out.extend(next.iter().cloned());
        frontier = next;
    }
    out
}

fn formats(ctx: &mut Ctx, len: usize) {
    ctx.stage(&format!("U-FMT(L={}) source level", len));
    let extra = ["\\t", "\\r", "a\\tb~\\r", "~~~", "\\~~\\~", "é~é", "👍~"];
    let mut all = strings(len);
    all.extend(extra.iter().map(|s| s.to_string()));
    let mut admitted = 0u64;
    for s in &all {
        if !lexable(s) { ctx.count("fmt_not_lexable", 1); continue }
        admitted += 1;
        for k in 0..4usize {
            if ctx.take().is_none() { continue }
            let args: Vec<E> = (0..k).map(|i| int(10 + i as i32)).collect();
            // the value of print (null) is printed by an enclosing print; markers around it
            let prog = vec![print("[", vec![]), print("|~|", vec![print(s, args)]), print("]", vec![])];
            semantic_case(ctx, "U-FMT", &prog);
            ctx.count("programs", 1);
        }
    }
    ctx.note(&format!("U-FMT(L={}): {} strings, {} admitted by the lexer, x 4 argument counts", len, all.len(), admitted));
}

const LEAF: usize = 0;
const VAL: usize = 1;

fn value_grammar() -> Grammar<E> {
    let mut g: Grammar<E> = Grammar::new(2);
    g.leaf(LEAF, || E::Null);
    g.leaf(LEAF, || E::Bool(true));
    g.leaf(LEAF, || int(-1));
    g.leaf(LEAF, || int(0));
    g.prod_w(VAL, 0, &[LEAF], |mut k| k.pop().unwrap());
    // arrays of length 0..2 (cells share one initializer value; distinct cells come from nesting below)
    g.prod(VAL, &[VAL], |mut k| array(int(0), k.pop().unwrap()));
    g.prod(VAL, &[VAL], |mut k| array(int(1), k.pop().unwrap()));
    g.prod(VAL, &[VAL], |mut k| array(int(2), k.pop().unwrap()));
    // objects: every ordered selection of <= 3 field names out of 6, parent in {none, int, array, object}
    let names = ["b", "a", "ab", "B", "_", "a1"];
    g.leaf(VAL, || object(None, vec![]));
    for p in 0..4usize {
        let parent = move || match p { 0 => None, 1 => Some(int(3)), 2 => Some(array(int(1), int(4))), _ => Some(object(None, vec![field("p", int(1))])) };
        if p > 0 { g.leaf(VAL, move || object(parent(), vec![])) }
        for i in 0..6 {
            g.prod(VAL, &[VAL], move |mut k| object(parent(), vec![field(names[i], k.pop().unwrap())]));
            for j in 0..6 {
                if j == i { continue }
                g.prod(VAL, &[VAL, LEAF], move |mut k| { let y = k.pop().unwrap(); let x = k.pop().unwrap(); object(parent(), vec![field(names[i], x), field(names[j], y)]) });
                for l in 0..6 {
                    if l == i || l == j { continue }
                    g.prod(VAL, &[LEAF, LEAF, LEAF], move |mut k| {
                        let z = k.pop().unwrap(); let y = k.pop().unwrap(); let x = k.pop().unwrap();
                        object(parent(), vec![field(names[i], x), field(names[j], y), field(names[l], z)])
                    });
                }
            }
        }
    }
    // object with a parent that is itself an arbitrary value and a method (methods are not rendered)
    g.prod(VAL, &[VAL, VAL], |mut k| { let y = k.pop().unwrap(); let x = k.pop().unwrap(); object(Some(x), vec![field("f", y), method("m", &[], int(1))]) });
    g
}

fn values(ctx: &mut Ctx, size: usize) {
    let mut g = value_grammar();
    g.prepare(size);
    for n in 1..=size {
        ctx.stage(&format!("U-VAL(size={})", n));
        for_each_owned(ctx, &g, VAL, n, n, |ctx, _s, v| {
            let prog = vec![print("~\\n", vec![v.clone()]), let_("x", v), print("~ and ~\\n", vec![var("x"), var("x")]),
                // the same value reachable twice from ONE argument: sharing is not a cycle
                print("~\\n", vec![array(int(2), var("x"))]),
                print("~\\n", vec![object(Some(var("x")), vec![field("a", var("x")), field("b", array(int(1), var("x")))])])];
            semantic_case(ctx, "U-VAL", &prog);
            ctx.count("programs", 1);
        });
        ctx.note(&format!("U-VAL(size={}): {} values", n, g.count(VAL, n)));
        if ctx.capped { break }
    }
}

/// large single prints through the real command line: stdout must carry every byte
fn large_outputs(ctx: &mut Ctx) {
    ctx.stage("large single prints through the real stdout (processes)");
    let exe = ctx.exe.clone();
    let mut progs: Vec<Vec<E>> = vec![];
    for n in [60usize, 64, 200, 300, 5000] {
        // "heading:\n" followed by a rendered array of n elements (6 bytes per element + brackets)
        progs.push(vec![print("heading:\\n~", vec![array(int(n as i32), int(12345))])]);
        progs.push(vec![print("~\\nend", vec![array(int(n as i32), int(12345))])]);
        progs.push(vec![print("~", vec![array(int(n as i32), int(12345))]), print("\\ntail\\n", vec![])]);
        progs.push(vec![let_("a", array(int(n as i32), array(int(3), E::Null))), print("a\\n~\\n~", vec![var("a"), var("a")])]);
    }
    for len in [1000usize, 1023, 1024, 1025, 4096, 70000] {
        progs.push(vec![print(&format!("x\\n{}", "y".repeat(len)), vec![])]);
        progs.push(vec![print(&format!("{}\\n{}", "z".repeat(len), "y".repeat(len)), vec![]), print("!", vec![])]);
    }
    for prog in progs {
        if ctx.take().is_none() { continue }
        let mut fuel = super::super::refsem::Fuel::default();
        fuel.array = 10_000; fuel.output = 1_000_000; fuel.steps = 200_000;
        let r = super::super::refsem::run_with(&prog, fuel, &[]);
        if r.status != super::super::refsem::Status::Ok { ctx.count("unspecified", 1); continue }
        let text = show(&prog);
        let f = super::super::cli::write_file(&ctx.scratch, "big.fml", text.as_bytes());
        let res = super::super::cli::simple(&exe, &["run", f.to_str().unwrap()]);
        // and redirected to a file by a shell
        let outf = ctx.scratch.join("big.out");
        let sh = std::process::Command::new("sh").arg("-c").arg(format!("'{}' run '{}' > '{}'", exe.display(), f.display(), outf.display())).env("RUST_BACKTRACE", "0").status();
        let redirected = std::fs::read(&outf).unwrap_or_default();
        ctx.count("programs", 1); ctx.count("cli_runs", 2);
        ctx.nontrivial(text.as_bytes());
        for (how, ok, bytes) in [("pipe", res.ok(), res.stdout.clone()), ("redirected to a file", sh.map(|s| s.success()).unwrap_or(false), redirected)] {
            if !ok || bytes != r.out.as_bytes() {
                ctx.violation("print/large-output-incomplete", "`fml run` does not deliver the complete text of a large print to stdout",
                    serde_json::json!({"text": if text.len() > 300 { format!("{}... ({} chars)", &text[..150], text.len()) } else { text.clone() }, "stdout": how, "expected_bytes": r.out.len(), "received_bytes": bytes.len(), "exit_ok": ok, "cli": "fml run <file> > out.txt"}));
            }
        }
    }
}

pub fn run(ctx: &mut Ctx) {
    large_outputs(ctx);
    formats(ctx, if ctx.quick() { 6 } else { 7 });
    values(ctx, if ctx.quick() { 4 } else { 5 });
}
