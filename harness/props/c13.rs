//! C13 — left-to-right evaluation, exact evaluation counts. U-ORDER(d): every construct with a
//! self-identifying tracer in every operand slot, one slot at a time replaced by every construct
//! of the right kind (depth d); array sizes 0..3, loop counts 0..3, both branches. Oracle: R.

use super::super::explore::Ctx;
use super::super::syntax::*;
use super::common::semantic_case;

/// tracer of kind k: prints a marker, then yields a value of that kind
fn tracer(kind: char) -> E {
    let v = match kind {
        'I' => int(1), 'Z' => int(0), 'B' => E::Bool(true), 'F' => E::Bool(false), 'O' => var("go"), 'A' => var("ga"),
        '0' => int(0), '2' => int(2), '3' => int(3),
        _ => E::Null,
    };
    block(vec![print("<@>", vec![]), v])
}

fn is_tracer(e: &E) -> Option<char> {
    if let E::Block(v) = e {
        if v.len() == 2 {
            if let E::Print(f, a) = &v[0] {
                if f == "<@>" && a.is_empty() {
                    return Some(match &v[1] {
                        E::Int(1) => 'I', E::Bool(_) => 'B', E::Var(n) if n == "go" => 'O', E::Var(n) if n == "ga" => 'A',
                        _ => '-', // fixed-value tracers (sizes, index 0, false) are not replaced
                    })
                }
            }
        }
    }
    None
}

struct Shape { kind: char, e: E }

fn shapes() -> Vec<Shape> {
    let t = tracer;
    let mut v: Vec<Shape> = vec![];
    let mut add = |kind: char, e: E| v.push(Shape { kind, e });
    for op in ["+", "-", "*"] { add('I', binop(op, t('I'), t('I'))) }
    add('I', binop("/", t('I'), t('I')));
    for op in ["<", "==", "!=", ">="] { add('B', binop(op, t('I'), t('I'))) }
    for op in ["&", "|", "=="] { add('B', binop(op, t('B'), t('B'))) }
    add('B', binop("==", t('O'), t('I')));
    add('I', call("f0", vec![]));
    add('I', call("f1", vec![t('I')]));
    add('I', call("f2", vec![t('I'), t('I')]));
    add('I', call("f3", vec![t('I'), t('B'), t('I')]));
    add('I', mcall(t('O'), "m0", vec![]));
    add('I', mcall(t('O'), "m1", vec![t('I')]));
    add('I', mcall(t('O'), "m2", vec![t('I'), t('B')]));
    add('I', mcall(t('O'), "m3", vec![t('I'), t('I'), t('I')]));
    add('I', mcall(t('O'), "+", vec![t('I')]));
    add('I', binop("+", t('O'), t('I')));
    add('I', mcall(t('I'), "+", vec![t('I')]));
    add('O', object(Some(t('O')), vec![field("a", t('I')), field("b", t('I'))]));
    add('O', object(None, vec![field("a", t('I')), method("m0", &[], int(5)), field("b", t('B'))]));
    add('O', object(Some(t('A')), vec![field("a", t('I'))]));
    for n in ['0', 'I', '2', '3'] {
        add('A', array(t(n), t('I')));
        add('A', array(t(n), int(7)));
        add('A', array(t(n), var("v")));
        add('A', array(t(n), fget(var("go"), "a")));
        add('A', array(t(n), fget(t('O'), "a")));
        add('A', array(t(n), call("f1", vec![t('I')])));
        add('A', array(t(n), object(None, vec![field("a", t('I'))])));
        add('A', array(t(n), array(t('I'), t('I'))));
    }
    add('B', binop("|", E::Bool(true), t('B'))); add('B', binop("&", E::Bool(false), t('B')));
    add('B', binop("|", t('B'), E::Bool(true))); add('B', binop("&", t('F'), t('B')));
    add('I', binop("*", int(0), t('I'))); add('I', binop("*", t('I'), int(0))); add('I', binop("+", int(0), t('I'))); add('I', binop("-", t('I'), t('I')));
    add('B', binop("==", t('I'), t('I'))); add('N', if_(E::Bool(true), t('I'), Some(t('I')))); add('N', while_(E::Bool(false), t('I')));
    for n in ['0', '2'] {
        add('A', array(t(n), idx(var("go"), int(1))));            // user-defined get: a call, once per element
        add('A', array(t(n), binop("+", var("go"), int(1))));     // user-defined operator: a call
        add('A', array(t(n), mcall(var("go"), "m0", vec![])));
        add('A', array(t(n), binop("+", var("v"), int(1))));
    }
    // the size is read once, first - even when the initialiser assigns the variable it was read from
    add('A', block(vec![set("v", int(3)), array(var("v"), block(vec![set("v", binop("-", var("v"), int(1))), t('I')]))]));
    add('A', block(vec![let_("n", int(2)), array(var("n"), block(vec![set("n", binop("+", var("n"), int(1))), t('I')]))]));
    add('A', block(vec![set("v", int(2)), array(var("v"), block(vec![set("v", int(0)), var("v")]))]));
    add('I', idx(t('A'), t('Z')));
    add('I', idx(t('O'), t('I')));
    add('N', idxset(t('A'), t('Z'), t('I')));
    add('N', idxset(t('O'), t('I'), t('I')));
    add('I', fget(t('O'), "a"));
    add('I', fset(t('O'), "a", t('I')));
    add('N', print("~", vec![t('I')]));
    add('N', print("~ ~", vec![t('I'), t('B')]));
    add('N', print("~ ~ ~", vec![t('I'), t('I'), t('I')]));
    add('I', let_("w", t('I')));
    add('I', set("v", t('I')));
    add('I', block(vec![t('B'), t('I')]));
    add('I', block(vec![t('I'), t('B'), t('I')]));
    add('I', if_(t('B'), t('I'), Some(t('I'))));
    add('I', if_(t('F'), t('I'), Some(t('I'))));
    add('I', if_(t('B'), t('I'), None));
    add('N', if_(t('F'), t('I'), None));
    for n in 0..=3 {
        add('N', block(vec![let_("i", int(0)),
            while_(block(vec![print("<@>", vec![]), binop("<", var("i"), int(n))]),
                   block(vec![set("i", binop("+", var("i"), int(1))), t('I')]))]));
    }
    // initialisers that print nothing: one evaluation per element is observed through aliasing
    // (write through element 0, then look at all elements)
    for n in ['2', '3'] {
        let inits: Vec<(E, E)> = vec![
            (array(int(2), int(0)), idxset(idx(var("m"), int(0)), int(0), int(9))),
            (array(int(1), fget(var("go"), "a")), idxset(idx(var("m"), int(0)), int(0), int(9))),
            (array(int(1), var("v")), idxset(idx(var("m"), int(0)), int(0), int(9))),
            (array(int(2), array(int(1), int(0))), idxset(idx(idx(var("m"), int(0)), int(1)), int(0), int(9))),
            (object(None, vec![field("a", int(0))]), fset(idx(var("m"), int(0)), "a", int(9))),
            (object(None, vec![field("a", var("v"))]), fset(idx(var("m"), int(0)), "a", int(9))),
            (object(Some(array(int(1), int(0))), vec![]), idxset(idx(var("m"), int(0)), int(0), int(9))),
            (object(None, vec![field("a", array(int(1), int(0)))]), idxset(fget(idx(var("m"), int(0)), "a"), int(0), int(9))),
        ];
        for (init, write) in inits {
            add('A', block(vec![let_("m", array(t(n), init)), write, var("m")]));
        }
    }
    // a loop condition that is itself an operator expression: both operands on every test
    for n in 0..=2 {
        let test = move || block(vec![print("<@>", vec![]), binop("<", var("i"), int(n))]);
        let conds: Vec<E> = vec![
            binop("|", test(), t('F')), binop("|", t('F'), test()), binop("&", test(), t('B')), binop("&", t('B'), test()),
            binop("|", binop("|", t('F'), test()), t('F')), binop("&", binop("|", test(), t('F')), t('B')),
            binop("==", test(), t('B')), binop("!=", test(), t('F')),
            mcall(test(), "|", vec![t('F')]), binop("<", t('Z'), binop("-", int(n), var("i"))),
        ];
        for c in conds {
            add('N', block(vec![let_("i", int(0)), while_(c, block(vec![set("i", binop("+", var("i"), int(1))), t('I')]))]));
        }
    }
    v
}

/// positions (pre-order) of replaceable tracers with their kinds
fn tracer_slots(e: &E, acc: &mut Vec<char>) {
    if let Some(k) = is_tracer(e) { if k != '-' { acc.push(k) } else { acc.push('-') } return }
    for c in e.children() { tracer_slots(c, acc) }
}

/// replace the n-th tracer (pre-order) by `by`
fn replace_nth(e: &E, n: &mut isize, by: &E) -> E {
    use E::*;
    if is_tracer(e).is_some() {
        *n -= 1;
        return if *n == -1 { by.clone() } else { e.clone() };
    }
    let mut r = |x: &E| replace_nth(x, n, by);
    match e {
        Int(_) | Bool(_) | Null | Var(_) => e.clone(),
        Let(s, v) => Let(s.clone(), b(r(v))),
        Set(s, v) => Set(s.clone(), b(r(v))),
        Block(v) => Block(v.iter().map(|x| r(x)).collect()),
        If(c, t, f) => { let c2 = r(c); let t2 = r(t); let f2 = f.as_ref().map(|x| b(r(x))); If(b(c2), b(t2), f2) }
        While(c, body) => { let c2 = r(c); let b2 = r(body); While(b(c2), b(b2)) }
        Call(s, a) => Call(s.clone(), a.iter().map(|x| r(x)).collect()),
        Array(x, y) => { let x2 = r(x); let y2 = r(y); Array(b(x2), b(y2)) }
        Idx(x, y) => { let x2 = r(x); let y2 = r(y); Idx(b(x2), b(y2)) }
        IdxSet(x, y, z) => { let x2 = r(x); let y2 = r(y); let z2 = r(z); IdxSet(b(x2), b(y2), b(z2)) }
        Object(p, ms) => {
            let p2 = p.as_ref().map(|x| b(r(x)));
            let ms2 = ms.iter().map(|m| match m {
                Member::Field(s, v) => Member::Field(s.clone(), r(v)),
                Member::Method(s, ps, body) => Member::Method(s.clone(), ps.clone(), r(body)),
            }).collect();
            Object(p2, ms2)
        }
        FGet(o, s) => FGet(b(r(o)), s.clone()),
        FSet(o, s, v) => { let o2 = r(o); let v2 = r(v); FSet(b(o2), s.clone(), b(v2)) }
        MCall(o, s, a) => { let o2 = r(o); MCall(b(o2), s.clone(), a.iter().map(|x| r(x)).collect()) }
        BinOp(op, l, rr) => { let l2 = r(l); let r2 = r(rr); BinOp(op.clone(), b(l2), b(r2)) }
        Print(s, a) => Print(s.clone(), a.iter().map(|x| r(x)).collect()),
        Fun(s, ps, body) => Fun(s.clone(), ps.clone(), b(r(body))),
    }
}

/// number the tracer markers in textual order
fn number(e: &E, ctr: &mut u32) -> E {
    use E::*;
    match e {
        Print(f, a) if f == "<@>" && a.is_empty() => { *ctr += 1; Print(format!("<{}>", ctr), vec![]) }
        _ => {
            // generic rebuild through replace-like traversal
            let mut r = |x: &E| number(x, ctr);
            match e {
                Int(_) | Bool(_) | Null | Var(_) => e.clone(),
                Let(s, v) => Let(s.clone(), b(r(v))),
                Set(s, v) => Set(s.clone(), b(r(v))),
                Block(v) => Block(v.iter().map(|x| r(x)).collect()),
                If(c, t, f) => { let c2 = r(c); let t2 = r(t); let f2 = f.as_ref().map(|x| b(r(x))); If(b(c2), b(t2), f2) }
                While(c, body) => { let c2 = r(c); let b2 = r(body); While(b(c2), b(b2)) }
                Call(s, a) => Call(s.clone(), a.iter().map(|x| r(x)).collect()),
                Array(x, y) => { let x2 = r(x); let y2 = r(y); Array(b(x2), b(y2)) }
                Idx(x, y) => { let x2 = r(x); let y2 = r(y); Idx(b(x2), b(y2)) }
                IdxSet(x, y, z) => { let x2 = r(x); let y2 = r(y); let z2 = r(z); IdxSet(b(x2), b(y2), b(z2)) }
                Object(p, ms) => {
                    let p2 = p.as_ref().map(|x| b(r(x)));
                    let ms2 = ms.iter().map(|m| match m {
                        Member::Field(s, v) => Member::Field(s.clone(), r(v)),
                        Member::Method(s, ps, body) => Member::Method(s.clone(), ps.clone(), r(body)),
                    }).collect();
                    Object(p2, ms2)
                }
                FGet(o, s) => FGet(b(r(o)), s.clone()),
                FSet(o, s, v) => { let o2 = r(o); let v2 = r(v); FSet(b(o2), s.clone(), b(v2)) }
                MCall(o, s, a) => { let o2 = r(o); MCall(b(o2), s.clone(), a.iter().map(|x| r(x)).collect()) }
                BinOp(op, l, rr) => { let l2 = r(l); let r2 = r(rr); BinOp(op.clone(), b(l2), b(r2)) }
                Print(s, a) => Print(s.clone(), a.iter().map(|x| r(x)).collect()),
                Fun(s, ps, body) => Fun(s.clone(), ps.clone(), b(r(body))),
            }
        }
    }
}

fn prelude() -> Vec<E> {
    let say = |tag: &str, ps: &[&str]| {
        let fmt = format!("[{}{}]", tag, ps.iter().map(|_| " ~").collect::<String>());
        block(vec![print(&fmt, ps.iter().map(|p| var(p)).collect()), int(1)])
    };
    vec![
        let_("v", int(0)),
        let_("ga", array(int(3), int(0))),
        let_("go", object(None, vec![
            field("a", int(1)),
            method("m0", &[], say("m0", &[])), method("m1", &["p"], say("m1", &["p"])),
            method("m2", &["p", "q"], say("m2", &["p", "q"])), method("m3", &["p", "q", "r"], say("m3", &["p", "q", "r"])),
            method("+", &["p"], say("plus", &["p"])), method("==", &["p"], block(vec![print("[eq ~]", vec![var("p")]), E::Bool(true)])),
            method("get", &["i"], say("get", &["i"])), method("set", &["i", "w"], say("set", &["i", "w"])),
        ])),
        fun("f0", &[], say("f0", &[])), fun("f1", &["p"], say("f1", &["p"])),
        fun("f2", &["p", "q"], say("f2", &["p", "q"])), fun("f3", &["p", "q", "r"], say("f3", &["p", "q", "r"])),
    ]
}

fn programs(e: &E) -> Vec<(&'static str, Vec<E>)> {
    let mut ctr = 0;
    let e = number(e, &mut ctr);
    let tail = print("|~ ~ ~\\n", vec![var("v"), var("ga"), fget(var("go"), "a")]);
    let mut out = vec![];
    for kept in [false, true] {
        let st = if kept { print("=~\\n", vec![e.clone()]) } else { e.clone() };
        let mut p = prelude(); p.push(st.clone()); p.push(tail.clone());
        out.push((if kept { "top-kept" } else { "top-discarded" }, p));
        let mut q = prelude();
        q.push(fun("body", &["par"], block(vec![st.clone(), var("par")])));
        q.push(call("body", vec![int(9)])); q.push(tail.clone());
        out.push((if kept { "function-kept" } else { "function-discarded" }, q));
    }
    out
}

fn expansions(e: &E, base: &[Shape], f: &mut dyn FnMut(E)) {
    let mut slots = vec![];
    tracer_slots(e, &mut slots);
    for (i, k) in slots.iter().enumerate() {
        if *k == '-' { continue }
        for s in base.iter().filter(|s| s.kind == *k) {
            let mut n = i as isize;
            f(replace_nth(e, &mut n, &s.e));
        }
    }
}

fn evaluate(ctx: &mut Ctx, e: &E, all_placements: bool) {
    for (i, (placement, prog)) in programs(e).into_iter().enumerate() {
        // placements: top-discarded, function-discarded, top-kept, function-kept
        if !all_placements && (i == 1 || i == 2) { continue }
        semantic_case(ctx, "U-ORDER", &prog);
        ctx.count("programs", 1);
        ctx.count(&format!("placement:{}", placement), 1);
    }
}

pub fn run(ctx: &mut Ctx) {
    let depth = if ctx.quick() { 3 } else { 4 };
    let base = shapes();
    // levels 1 .. depth-1 are materialised (the last of them is a few hundred MB at depth 4); the
    // deepest level is streamed from its predecessor and never held in memory
    let mut level: Vec<E> = base.iter().map(|s| s.e.clone()).collect();
    for d in 1..=depth {
        ctx.stage(&format!("U-ORDER(d={})", d));
        if d < depth || depth == 1 {
            let mut next: Vec<E> = vec![];
            for e in &level {
                if ctx.take().is_some() { evaluate(ctx, e, true) }
                if d + 1 < depth { expansions(e, &base, &mut |x| next.push(x)) }
            }
            ctx.note(&format!("U-ORDER(d={}): {} expressions x 4 placements", d, level.len()));
            if d + 1 < depth { level = next }
        } else {
            let mut n = 0u64;
            for e in &level {
                let mut pending: Vec<E> = vec![];
                expansions(e, &base, &mut |x| pending.push(x));
                let all = !ctx.quick();
                for x in pending { n += 1; if ctx.take().is_some() { evaluate(ctx, &x, all) } }
                if ctx.capped { break }
            }
            ctx.note(&format!("U-ORDER(d={}): {} expressions x 4 placements (streamed)", d, n));
        }
        if ctx.capped { break }
    }
}
