//! Shared stages of C03 (save/load inverse), C04 (documented layout) and C17 (listing).

use serde_json::json;
use super::super::cli;
use super::super::codec::{self, Const, Prog};
use super::super::explore::{for_each_owned, Ctx};
use super::super::pipeline;
use super::super::syntax::*;
use super::super::universes::{bc, pair, sem, syn};
use super::selfcheck::corpus_files;

#[derive(Clone, Copy, PartialEq, Eq)]
pub enum Which { C03, C04 }

/// the codec laws on one byte string `b` that is claimed to be in the documented layout
pub fn laws(ctx: &mut Ctx, which: Which, origin: &str, b: &[u8], from_compiler: bool, describe: &dyn Fn() -> serde_json::Value) {
    ctx.count("byte_strings", 1);
    // independent reader accepts it and re-encodes it identically (layout leaves no freedom)
    let decoded = codec::read(b);
    if which == Which::C04 {
        match &decoded {
            Ok(p) => if codec::write(p) != b {
                ctx.violation("layout/independent-reencoding-differs", "the independent codec re-encodes the file differently (an undocumented encoding freedom was used)",
                    json!({"origin": origin, "case": describe(), "bytes_hex": codec::hex(b)}));
            },
            Err(e) => if from_compiler {
                ctx.violation("layout/emitted-file-not-in-documented-layout", "the independent reader cannot decode an emitted file",
                    json!({"origin": origin, "case": describe(), "error": e, "bytes_hex": codec::hex(b)}));
            },
        }
    }
    // real loader + real writer
    let p = match pipeline::load(b) {
        Ok(p) => p,
        Err(e) => {
            ctx.violation(if which == Which::C03 { "roundtrip/loader-refuses" } else { "layout/loader-refuses-documented-file" },
                "the loader refuses (or mis-sizes) a file in the documented layout",
                json!({"origin": origin, "case": describe(), "error": e, "bytes_hex": codec::hex(b)}));
            return;
        }
    };
    // the loaded program IS the program the file denotes: structural equality with the repository's own
    // in-memory representation built from the independent decoder's result (no detour through the writer)
    if which == Which::C04 && !pipeline::construct_convention_holds() { ctx.note("construct oracle off: the loader's in-memory code layout is not pool order on the canary programs") }
    if which == Which::C04 && pipeline::construct_convention_holds() {
        if let Ok(d) = &decoded {
            match pipeline::construct(d) {
                Ok(c) => {
                    ctx.count("loaded_vs_constructed", 1);
                    if c != p {
                        let (a, b2) = (format!("{:?}", p), format!("{:?}", c));
                        let at = a.chars().zip(b2.chars()).position(|(x, y)| x != y).unwrap_or(a.len().min(b2.len()));
                        let lo = at.saturating_sub(80);
                        ctx.violation("layout/loaded-program-is-not-the-denoted-program", "the loader builds a different program than the file denotes",
                            json!({"origin": origin, "case": describe(), "loaded_near_difference": a.chars().skip(lo).take(240).collect::<String>(),
                                   "denoted_near_difference": b2.chars().skip(lo).take(240).collect::<String>(), "bytes": b.len(), "bytes_hex": codec::hex(&b[..b.len().min(600)])}));
                    }
                }
                Err(_) => ctx.count("denoted_program_not_constructible", 1),
            }
        }
    }
    match pipeline::serialize(&p) {
        Ok(b2) => {
            if b2 != b {
                ctx.violation(if which == Which::C03 { "roundtrip/bytes-differ-after-save-load" } else { "layout/loaded-program-differs" },
                    "load followed by save does not reproduce the file byte for byte",
                    json!({"origin": origin, "case": describe(), "bytes_hex": codec::hex(b), "rewritten_hex": codec::hex(&b2),
                           "decoded_before": decoded.as_ref().ok().map(|p| format!("{:?}", p)), "decoded_after": codec::read(&b2).ok().map(|p| format!("{:?}", p))}));
            } else if which == Which::C03 {
                // writing again is identical
                if let Ok(b3) = pipeline::serialize(&p) { if b3 != b2 { ctx.violation("roundtrip/second-write-differs", "serializing the same program twice gives different bytes", json!({"origin": origin, "case": describe()})) } }
            }
        }
        Err(e) => ctx.violation("roundtrip/writer-refuses-loaded-program", "the writer refuses a program the loader produced", json!({"origin": origin, "case": describe(), "error": e})),
    }
    // readers that deliver the same bytes in pieces (a file is read through a buffer: short reads are
    // part of loading "any file in that layout")
    let pre = if which == Which::C03 { "roundtrip" } else { "layout" };
    if which == Which::C03 || which == Which::C04 {
        for k in (if which == Which::C03 { vec![1usize, 3, 7] } else { vec![2usize, 5] }) {
            ctx.count("chunked_loads", 1);
            match pipeline::load_chunked(b, k).and_then(|p| pipeline::serialize(&p)) {
                Ok(b2) if b2 == b => {}
                Ok(_) => ctx.violation(&format!("{}/short-reads-change-the-program", pre), "loading through a reader that returns short reads yields a different program",
                    json!({"origin": origin, "case": describe(), "chunk": k, "bytes_hex": codec::hex(b)})),
                Err(e) => ctx.violation(&format!("{}/short-reads-break-the-loader", pre), "loading through a reader that returns short reads fails",
                    json!({"origin": origin, "case": describe(), "chunk": k, "error": e, "bytes_hex": codec::hex(b)})),
            }
        }
        for cap in (if which == Which::C03 { vec![16usize, 61] } else { vec![9usize] }) {
            match pipeline::load_buffered(b, cap).and_then(|p| pipeline::serialize(&p)) {
                Ok(b2) if b2 == b => {}
                Ok(_) => ctx.violation(&format!("{}/short-reads-change-the-program", pre), "loading through a small BufReader yields a different program",
                    json!({"origin": origin, "case": describe(), "buffer": cap, "bytes_hex": codec::hex(b)})),
                Err(e) => ctx.violation(&format!("{}/short-reads-break-the-loader", pre), "loading through a small BufReader fails",
                    json!({"origin": origin, "case": describe(), "buffer": cap, "error": e, "bytes_hex": codec::hex(b)})),
            }
        }
    }
    if which == Which::C04 {
        // the loader must stop exactly at the end of the program
        let mut padded = b.to_vec(); padded.extend_from_slice(&[0xAB, 0xCD, 0xEF]);
        match pipeline::load_consumed(&padded) {
            Ok(n) if n == b.len() => {}
            Ok(n) => ctx.violation("layout/loader-reads-past-the-program", "the loader consumes bytes beyond the entry index", json!({"origin": origin, "case": describe(), "consumed": n, "length": b.len()})),
            Err(_) => {}
        }
    }
}

/// compiler output for a source text: laws + (C03) behaviour before == after save/load
pub fn compiled_case(ctx: &mut Ctx, which: Which, origin: &str, text: &str) {
    let ast = match pipeline::parse(text) { Ok(a) => a, Err(_) => { ctx.count("parse_rejected", 1); return } };
    let prog = match pipeline::compile(&ast) { Ok(p) => p, Err(_) => { ctx.count("compile_rejected", 1); return } };
    let b = match pipeline::serialize(&prog) { Ok(b) => b, Err(_) => { ctx.count("serialize_rejected", 1); return } };
    ctx.count("programs", 1);
    ctx.describe(text);
    let t = text.to_string();
    laws(ctx, which, origin, &b, true, &|| json!({"text": t}));
    if which == Which::C03 {
        if let Ok(p2) = pipeline::load(&b) {
            let (r1, s1, f1) = pipeline::execute_bounded(&prog, 20_000);
            let (r2, s2, f2) = pipeline::execute_bounded(&p2, 20_000);
            ctx.count("behaviour_pairs", 1);
            if !f1 && r1.ok { ctx.count("behaviour_pairs_cut_at_fuel", 1) }
            if r1.ok != r2.ok || r1.out != r2.out || s1 != s2 || f1 != f2 {
                ctx.violation("roundtrip/behaviour-changes", "the reloaded program behaves differently from the compiled one",
                    json!({"origin": origin, "text": text, "before": {"ok": r1.ok, "stdout": r1.out, "error": r1.err, "steps": s1}, "after": {"ok": r2.ok, "stdout": r2.out, "error": r2.err, "steps": s2}}));
            }
            if !r1.out.is_empty() { ctx.nontrivial(text.as_bytes()) }
        }
    } else if b.len() > 60 { ctx.nontrivial(text.as_bytes()) }
    if ctx.want_sample() { ctx.sample(json!({"origin": origin, "text": text, "bytes": b.len()})) }
}

pub fn compiler_outputs(ctx: &mut Ctx, which: Which, syn_n: usize, sem_n: usize) {
    ctx.stage("compiler outputs: CORPUS");
    let root = std::env::var("VERIF_REPO").unwrap_or("/repo".to_string());
    for p in corpus_files(&root) {
        if ctx.take().is_none() { continue }
        if let Ok(src) = std::fs::read_to_string(&p) { compiled_case(ctx, which, "CORPUS", &src) }
    }
    ctx.stage("compiler outputs: U-SCALE");
    for (_name, prog) in super::super::universes::scale::programs(!ctx.quick()) { if ctx.take().is_some() { compiled_case(ctx, which, "U-SCALE", &show(&prog)) } }
    for (_name, prog) in super::super::universes::scale::programs_u16() { if ctx.take().is_some() { compiled_case(ctx, which, "U-SCALE", &show(&prog)) } }
    ctx.stage("compiler outputs: U-PAIR(d=2)");
    let ts = pair::templates(); let fs = pair::fillers();
    for t in &ts { for f in &fs {
        if ctx.take().is_none() { continue }
        let e = pair::fill(t, f);
        for kept in [false, true] { for frame in 0..4 { compiled_case(ctx, which, "U-PAIR", &show(&pair::in_frame(&e, kept, frame))) } }
    } }
    let mut g = syn::grammar();
    g.prepare(syn_n);
    for n in 1..=syn_n {
        ctx.stage(&format!("compiler outputs: U-SYN(n={})", n));
        for_each_owned(ctx, &g, syn::X, n, n, |ctx, _s, e| {
            for pl in [0usize, 5, 7] { compiled_case(ctx, which, "U-SYN", &show(&syn::place(&e, pl))) }
        });
        if ctx.capped { return }
    }
    let mut g = sem::grammar();
    g.prepare(sem_n);
    for n in 1..=sem_n {
        ctx.stage(&format!("compiler outputs: U-SEM(n={})", n));
        for_each_owned(ctx, &g, sem::PROG, n, n, |ctx, _s, prog| {
            compiled_case(ctx, which, "U-SEM", &show(&sem::program(&prog, 0)));
        });
        if ctx.capped { return }
    }
}

pub fn direct_programs(ctx: &mut Ctx, which: Which, k: usize) {
    let menu = bc::const_menu();
    ctx.stage(&format!("U-BC constant sequences (k<={})", k));
    let total = bc::count_sequences(k);
    let base = ctx.index;
    loop {
        let off = ctx.next_owned_offset();
        let done = ctx.index - base;
        if off == u64::MAX || done + off >= total { break }
        ctx.skip(off);
        let rank = ctx.index - base;
        if ctx.take().is_some() {
            let p = bc::assemble(bc::sequence(rank, &menu), vec![bc::P_SLOT], None);
            let b = codec::write(&p);
            laws(ctx, which, "U-BC/sequence", &b, false, &|| json!({"program": format!("{:?}", p)}));
            ctx.count("programs", 1);
            ctx.nontrivial(&b);
            if ctx.want_sample() { ctx.sample(json!({"origin": "U-BC/sequence", "rank": rank, "program": format!("{:?}", p.consts[10..].to_vec())})) }
        } else if ctx.capped { break }
    }
    ctx.index = base + total;
    ctx.note(&format!("U-BC: {} constant sequences of length <= {} over a menu of {} constants", total, k, menu.len()));
    ctx.stage("U-BC method bodies");
    for p in bc::method_programs() {
        if ctx.take().is_none() { continue }
        let b = codec::write(&p);
        laws(ctx, which, "U-BC/method", &b, false, &|| json!({"program": format!("{:?}", p)}));
        ctx.count("programs", 1); ctx.nontrivial(&b);
    }
    ctx.stage("U-BC globals/entry/large");
    for p in bc::layout_programs() {
        if ctx.take().is_none() { continue }
        let b = codec::write(&p);
        laws(ctx, which, "U-BC/layout", &b, false, &|| json!({"globals": p.globals, "entry": p.entry, "constants": p.consts.len()}));
        ctx.count("programs", 1); ctx.nontrivial(&b);
    }
}

pub fn golden_files(ctx: &mut Ctx, which: Which) {
    ctx.stage("golden .bc files of the repository");
    let root = std::env::var("VERIF_REPO").unwrap_or("/repo".to_string());
    let mut files = vec![];
    for d in ["tests/bc_test_1", "tests/bc_test_2", "tests/bc_test_3", "tests/misc", "examples"] {
        if let Ok(rd) = std::fs::read_dir(format!("{}/{}", root, d)) {
            for e in rd.flatten() { if e.path().extension().map_or(false, |x| x == "bc") { files.push(e.path()) } }
        }
    }
    files.sort();
    for f in files {
        if ctx.take().is_none() { continue }
        if let Ok(b) = std::fs::read(&f) {
            let name = f.to_string_lossy().to_string();
            ctx.count("golden_files", 1);
            laws(ctx, which, "GOLDEN", &b, true, &|| json!({"file": name}));
        }
    }
}

/// the n-th program of the pool-size sweep: n prints of n distinct strings, so that consecutive n give
/// consecutive constant-pool sizes (every value of the file's first byte, 0..255, more than once) and,
/// from n = 330 on, files larger than 8 KiB whose string constants meet the refill boundary at every alignment
pub fn sweep_program(n: usize) -> String {
    let mut s = String::from("null");
    for i in 0..n { s.push_str(&format!(";\nprint(\"row {} of the sweep é\\n\")", i)) }
    s
}

/// two more families for the file-size sweep, so that the 8 KiB refill boundary also meets the globals
/// table at the end of the file (n top-level variables) and a class member table in the middle (one
/// object with n fields); each returns (source, expected output)
pub fn sweep_family(kind: usize, n: usize) -> (String, String) {
    match kind {
        0 => (sweep_program(n), (0..n).map(|i| format!("row {} of the sweep é\n", i)).collect()),
        1 => {
            let mut s = String::from("print(\"globals\\n\")");
            for i in 0..n { s.push_str(&format!(";\nlet g{} = {}", i, i)) }
            s.push_str(&format!(";\nprint(\"~ ~ ~\\n\", g0, g{}, g{})", n / 2, n - 1));
            (s, format!("globals\n0 {} {}\n", n / 2, n - 1))
        }
        _ => {
            let mut s = String::from("let o = object begin ");
            for i in 0..n { s.push_str(&format!("let f{} = {}; ", i, i)) }
            s.push_str(&format!("function last() -> this.f{} end;\nprint(\"~ ~ ~\\n\", o.f0, o.f{}, o.last())", n - 1, n / 2));
            (s, format!("0 {} {}\n", n / 2, n - 1))
        }
    }
}

/// a program whose bytecode is larger than `fml`'s 8 KiB file buffer; `pad` shifts every later
/// constant so that different constants straddle the refill boundaries
pub fn big_program(pad: usize, rows: usize) -> String {
    let mut s = format!("print(\"{}\\n\");\n", "p".repeat(pad));
    for i in 0..rows { s.push_str(&format!("print(\"row {} of the table: ~ and ~ {}\\n\", {}, {});\n", i, "é".repeat(i % 13), i, i * 7)) }
    s.push_str("print(\"done\\n\")");
    s
}
