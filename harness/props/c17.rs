//! C17 — disassembly is a faithful, complete rendering of the bytecode file.
//! Syntax-agnostic oracle: (1) injectivity over single-feature neighbourhoods: a program and
//! each program differing from it in one feature must have different listings, and the
//! neighbours' listings must be pairwise different; (2) when the edit changes one numeric feature
//! a -> a', the changed lines of the listing must contain a' as a numeral; (3) `fml disassemble`
//! prints exactly that listing.

use serde_json::json;
use std::collections::HashMap;
use super::super::cli;
use super::super::codec::{self, Const, Prog};
use super::super::explore::{fnv, Ctx};
use super::super::pipeline;
use super::super::syntax::*;
use super::super::universes::{bc, pair};

fn has_line_break(p: &Prog) -> bool {
    p.consts.iter().any(|c| matches!(c, Const::Str(s) if s.contains('\n') || s.contains('\r')))
}

fn listing_of(p: &Prog) -> Option<String> {
    let b = codec::write(p);
    let prog = pipeline::load(&b).ok()?;
    pipeline::listing(&prog).ok()
}

fn numerals(line: &str) -> Vec<i64> {
    let mut out = vec![];
    let bytes: Vec<char> = line.chars().collect();
    let mut i = 0;
    while i < bytes.len() {
        if bytes[i].is_ascii_hexdigit() {
            let mut j = i;
            while j < bytes.len() && bytes[j].is_ascii_hexdigit() { j += 1 }
            let tok: String = bytes[i..j].iter().collect();
            if let Ok(v) = i64::from_str_radix(&tok, 16) { out.push(v) }
            // decimal sub-runs
            let mut a = i;
            while a < j {
                if bytes[a].is_ascii_digit() {
                    let mut c = a;
                    while c < j && bytes[c].is_ascii_digit() { c += 1 }
                    let t: String = bytes[a..c].iter().collect();
                    if let Ok(v) = t.parse::<i64>() { out.push(v) }
                    a = c;
                } else { a += 1 }
            }
            i = j;
        } else { i += 1 }
    }
    out
}

/// a string constant made of ASCII letters, digits and blanks only needs no escaping in any
/// sensible concrete syntax: the listing must contain it verbatim (the listing is made from what the
/// LOADER produced, `p` from the independent decoder - a loader that damages text shows here)
fn plain_strings_shown(ctx: &mut Ctx, origin: &str, p: &Prog, listing: &str) {
    for (i, c) in p.consts.iter().enumerate() {
        if let Const::Str(t) = c {
            if t.is_empty() || !t.chars().all(|ch| ch.is_ascii_alphanumeric() || ch == ' ') { continue }
            ctx.count("plain_strings_looked_up", 1);
            if !listing.contains(t.as_str()) {
                ctx.violation("listing/string-constant-not-shown", "a string constant of letters and digits does not appear verbatim in the listing",
                    json!({"origin": origin, "constant_index": i, "constant": t.chars().take(200).collect::<String>(), "constant_bytes": t.len(),
                           "listing": listing.chars().take(600).collect::<String>(), "bytes": codec::write(p).len(), "bytes_hex": codec::hex(&codec::write(p)[..codec::write(p).len().min(400)])}));
            }
        }
    }
}

/// maximal runs of decimal digits of a line, in order
fn decimals(line: &str) -> Vec<i64> {
    let mut out = vec![]; let mut cur = String::new();
    for ch in line.chars().chain(std::iter::once(' ')) {
        if ch.is_ascii_digit() { cur.push(ch) } else if !cur.is_empty() { if let Ok(v) = cur.parse::<i64>() { out.push(v) } cur.clear() }
    }
    out
}

/// the line that describes method constant #i is the one whose numerals begin with (i, name index,
/// arity, locals) - the header fields in file order; if no line does (another concrete syntax), the
/// oracle below stays silent and counts that
fn method_line<'a>(listing: &'a str, i: usize, name: u16, arity: u8, locals: u16) -> Option<&'a str> {
    let want = [i as i64, name as i64, arity as i64, locals as i64];
    let mut found = None;
    for l in listing.lines() {
        let n = decimals(l);
        if n.len() >= 4 && n[..4] == want { if found.is_some() { return None } found = Some(l) }
    }
    found
}

/// a method's own line must change when one instruction is appended to it (the line shows how many
/// instructions the method has - for an empty method too)
fn method_extents_shown(ctx: &mut Ctx, origin: &str, p: &Prog, listing: &str) {
    for (i, c) in p.consts.iter().enumerate() {
        if let Const::Method { name, arity, locals, code } = c {
            if code.len() > 8 { continue }
            let mut q = p.clone();
            if let Const::Method { code: c2, .. } = &mut q.consts[i] { c2.push(codec::Ins::Drop) }
            if !bc::loadable(&q) { continue }
            let l2 = match listing_of(&q) { Some(l) => l, None => continue };
            ctx.count("listings", 1);
            match (method_line(listing, i, *name, *arity, *locals), method_line(&l2, i, *name, *arity, *locals)) {
                (Some(a), Some(b)) => {
                    ctx.count("method_lines_compared", 1);
                    if a == b {
                        ctx.violation("listing/method-extent-not-shown", "the line describing a method is the same with n and with n + 1 instructions",
                            json!({"origin": origin, "constant_index": i, "instructions": code.len(), "line": a, "bytes_hex": codec::hex(&codec::write(p)), "other_bytes_hex": codec::hex(&codec::write(&q))}));
                    }
                }
                _ => ctx.count("method_line_not_identified", 1),
            }
        }
    }
}

pub fn neighbourhood(ctx: &mut Ctx, origin: &str, p: &Prog) {
    if has_line_break(p) || !bc::loadable(p) { ctx.count("skipped_line_break_or_unloadable", 1); return }
    let base = match listing_of(p) { Some(l) => l, None => { ctx.count("base_not_listable", 1); return } };
    ctx.count("programs", 1);
    ctx.count("listings", 1);
    ctx.nontrivial(base.as_bytes());
    plain_strings_shown(ctx, origin, p, &base);
    // syntax-agnostic: the listing of the LOADED file is the listing of the program the file denotes
    // (the repository's own Display applied to a Program built from the independent decoder's result)
    if !pipeline::construct_convention_holds() { ctx.note("construct oracle off: the loader's in-memory code layout is not pool order on the canary programs") }
    match if pipeline::construct_convention_holds() { pipeline::construct(p) } else { Err(String::new()) } {
        Ok(c) => {
            ctx.count("listing_vs_listing_of_denoted_program", 1);
            let want = format!("{}", c);
            if want != base {
                let at = want.chars().zip(base.chars()).position(|(x, y)| x != y).unwrap_or(want.len().min(base.len()));
                let lo = at.saturating_sub(60);
                ctx.violation("listing/differs-from-listing-of-denoted-program", "the listing of the loaded file is not the listing of the program the file denotes",
                    json!({"origin": origin, "listing_near_difference": base.chars().skip(lo).take(200).collect::<String>(), "denoted_near_difference": want.chars().skip(lo).take(200).collect::<String>(),
                           "bytes": codec::write(p).len(), "bytes_hex": codec::hex(&codec::write(p)[..codec::write(p).len().min(400)])}));
            }
        }
        Err(_) => ctx.count("denoted_program_not_constructible", 1),
    }
    method_extents_shown(ctx, origin, p, &base);
    let mut seen: HashMap<u64, usize> = HashMap::new();
    let ns = bc::neighbours(p);
    let base_lines: Vec<&str> = base.lines().collect();
    for (qi, (q, edit)) in ns.iter().enumerate() {
        if has_line_break(q) || !bc::loadable(q) { continue }
        let l = match listing_of(q) { Some(l) => l, None => { ctx.count("neighbour_not_listable", 1); continue } };
        ctx.count("listings", 1);
        ctx.count("neighbour_pairs", 1);
        if l == base {
            ctx.violation("listing/neighbour-indistinguishable", "two different programs have the same listing",
                json!({"origin": origin, "edit": edit.what, "program": format!("{:?}", p), "listing": base, "bytes_hex": codec::hex(&codec::write(p)), "other_bytes_hex": codec::hex(&codec::write(q))}));
            continue;
        }
        let h = fnv(l.as_bytes());
        if let Some(prev) = seen.get(&h) {
            if ns[*prev].0 != *q {
                ctx.violation("listing/neighbours-collide", "two different programs have the same listing",
                    json!({"origin": origin, "edit_a": ns[*prev].1.what, "edit_b": edit.what, "listing": l, "bytes_hex": codec::hex(&codec::write(&ns[*prev].0)), "other_bytes_hex": codec::hex(&codec::write(q))}));
            }
        } else { seen.insert(h, qi); }
        if let Some((_, new)) = edit.numeric {
            let lines: Vec<&str> = l.lines().collect();
            let changed: Vec<&str> = if lines.len() == base_lines.len() {
                lines.iter().zip(base_lines.iter()).filter(|(a, b)| a != b).map(|(a, _)| *a).collect()
            } else { lines.iter().filter(|x| !base_lines.contains(x)).cloned().collect() };
            let want = new.abs();
            if !changed.iter().any(|ln| numerals(ln).contains(&want)) {
                ctx.violation("listing/changed-operand-not-shown", "a numeric feature changed but its new value does not appear in the changed lines of the listing",
                    json!({"origin": origin, "edit": edit.what, "new_value": new, "changed_lines": changed, "bytes_hex": codec::hex(&codec::write(q))}));
            }
        }
    }
}

fn cli_binding(ctx: &mut Ctx, p: &Prog) {
    let b = codec::write(p);
    let expected = match pipeline::load(&b).ok().and_then(|x| pipeline::listing(&x).ok()) { Some(l) => l, None => return };
    let f = cli::write_file(&ctx.scratch, "d.bc", &b);
    let exe = ctx.exe.clone();
    let r = cli::simple(&exe, &["disassemble", f.to_str().unwrap()]);
    let r2 = cli::run(&exe, &["disassemble"], Some(&b), None, &[], std::time::Duration::from_secs(20));
    ctx.count("cli_runs", 2);
    for (how, res) in [("file", &r), ("stdin", &r2)] {
        if !res.ok() || res.out().trim_end_matches('\n') != expected.trim_end_matches('\n') {
            ctx.violation("listing/cli-differs-from-display", "`fml disassemble` does not print the program's listing",
                json!({"input": how, "exit": res.code, "stdout": res.out().chars().take(400).collect::<String>(), "expected": expected.chars().take(400).collect::<String>(), "bytes": b.len(), "bytes_hex": codec::hex(&b[..b.len().min(600)])}));
        }
    }
}

/// every constant-pool size 0..=600 (every value of the file's first byte; files beyond the 8 KiB read
/// buffer from n = 330 on) through `fml disassemble`, as a file and on stdin
fn pool_size_sweep(ctx: &mut Ctx) {
    ctx.stage("pool-size sweep through the command line (processes)");
    for n in 0..=600usize {
        if ctx.take().is_none() { continue }
        let src = super::bcprops::sweep_program(n);
        let bytes = match pipeline::compile_source(&src) { Ok(b) => b, Err(_) => continue };
        let p = match codec::read(&bytes) { Ok(p) => p, Err(_) => continue };
        ctx.count("programs", 1);
        ctx.nontrivial(&n.to_le_bytes());
        cli_binding(ctx, &p);
    }
    // globals tables and class member tables at the refill boundary
    for kind in 1..=2usize {
        for n in (300..=560usize).step_by(if ctx.quick() { 2 } else { 1 }) {
            if ctx.take().is_none() { continue }
            let (src, _) = super::bcprops::sweep_family(kind, n);
            let bytes = match pipeline::compile_source(&src) { Ok(b) => b, Err(_) => continue };
            let p = match codec::read(&bytes) { Ok(p) => p, Err(_) => continue };
            ctx.count("programs", 1);
            ctx.nontrivial(&[kind as u8, (n % 256) as u8, (n / 256) as u8]);
            cli_binding(ctx, &p);
        }
    }
}

pub fn run(ctx: &mut Ctx) {
    pool_size_sweep(ctx);
    let menu = bc::const_menu();
    let k = if ctx.quick() { 2 } else { 3 };
    ctx.stage(&format!("U-BC constant sequences (k<={}) and their neighbours", k));
    let total = bc::count_sequences(k);
    for rank in 0..total {
        if ctx.take().is_none() { continue }
        let p = bc::assemble(bc::sequence(rank, &menu), vec![bc::P_SLOT], None);
        neighbourhood(ctx, "U-BC/sequence", &p);
        if rank % 7 == 0 { cli_binding(ctx, &p) }
    }
    ctx.stage("U-BC method bodies and their neighbours");
    for (i, p) in bc::method_programs().into_iter().enumerate() {
        
        if ctx.take().is_none() { continue }
        neighbourhood(ctx, "U-BC/method", &p);
    }
    ctx.stage("U-BC globals/entry and their neighbours");
    for p in bc::layout_programs() {
        if p.consts.len() > 60 { continue }
        if ctx.take().is_none() { continue }
        neighbourhood(ctx, "U-BC/layout", &p);
        cli_binding(ctx, &p);
    }
    ctx.stage("compiler outputs and their neighbours");
    let ts = pair::templates(); let fs = pair::fillers();
    let stride = if ctx.quick() { 37 } else { 5 };
    let mut n = 0usize;
    for t in &ts { for f in &fs {
        n += 1;
        if n % stride != 0 { continue }
        if ctx.take().is_none() { continue }
        let text = show(&pair::in_frame(&pair::fill(t, f), true, n % 4));
        if let Ok(b) = pipeline::compile_source(&text) {
            if let Ok(p) = codec::read(&b) { neighbourhood(ctx, "compiler output", &p); if n % (stride * 4) == 0 { cli_binding(ctx, &p) } }
        }
    } }
}
