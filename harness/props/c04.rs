//! C04 — bytecode files follow the documented Feeny/FML binary layout.

use serde_json::json;
use super::super::cli;
use super::super::codec;
use super::super::explore::Ctx;
use super::super::pipeline;
use super::bcprops::{self, Which};

/// emitted *files*: `fml compile -o` to a fresh path, to a path that already holds a longer
/// file, into a directory, and to stdout must all be exactly the in-memory bytes
fn emitted_files(ctx: &mut Ctx) {
    ctx.stage("emitted files (processes)");
    let exe = ctx.exe.clone();
    let programs = ["print(\"hi\\n\")", "let x = 1; function f(a) -> a + x; print(\"~\\n\", f(2))",
        "let o = object begin let a = 1; function m() -> this.a end; print(\"~ λ\\n\", o.m())", "1"];
    for (i, src) in programs.iter().enumerate() {
        if ctx.take().is_none() { continue }
        let expected = match pipeline::compile_source(src) { Ok(b) => b, Err(_) => continue };
        let f = cli::write_file(&ctx.scratch, "e.fml", src.as_bytes());
        let ast = ctx.scratch.join("e.json");
        let p = cli::simple(&exe, &["parse", f.to_str().unwrap(), "-o", ast.to_str().unwrap()]);
        let fresh = ctx.scratch.join(format!("fresh{}.bc", i));
        let _ = std::fs::remove_file(&fresh);
        let c1 = cli::simple(&exe, &["compile", ast.to_str().unwrap(), "-o", fresh.to_str().unwrap()]);
        let stale = cli::write_file(&ctx.scratch, "stale.bc", &vec![0x5Au8; expected.len() + 300]);
        let c2 = cli::simple(&exe, &["compile", ast.to_str().unwrap(), "-o", stale.to_str().unwrap()]);
        let dir = ctx.scratch.join("outdir"); let _ = std::fs::create_dir_all(&dir);
        let c3 = cli::simple(&exe, &["compile", ast.to_str().unwrap(), "-o", dir.to_str().unwrap()]);
        let c4 = cli::simple(&exe, &["compile", ast.to_str().unwrap()]);
        ctx.count("programs", 1); ctx.count("cli_pipelines", 4);
        let got: Vec<(&str, Vec<u8>)> = vec![
            ("fresh path", std::fs::read(&fresh).unwrap_or_default()),
            ("path holding a longer file", std::fs::read(&stale).unwrap_or_default()),
            ("directory", std::fs::read(dir.join("e.bc")).unwrap_or_default()),
            ("stdout", c4.stdout.clone()),
        ];
        for (what, bytes) in got {
            if bytes != expected {
                ctx.violation(&format!("layout/emitted-file-differs/{}", what.replace(' ', "-")), "the file written by `fml compile` is not exactly the serialized program",
                    json!({"text": src, "target": what, "expected_len": expected.len(), "actual_len": bytes.len(),
                           "independent_reader": codec::read(&bytes).err(), "cli": "fml compile x.json -o <target>"}));
            }
        }
        ctx.nontrivial(src.as_bytes());
    }
}

/// files written by the independent writer, of every constant-pool size 0..=600 (beyond the 8 KiB
/// read buffer from n = 330 on), loaded by the real command line: the program they denote runs
fn loaded_files(ctx: &mut Ctx) {
    ctx.stage("independently written files of every pool size, loaded by the command line (processes)");
    let exe = ctx.exe.clone();
    for n in 0..=600usize {
        if ctx.take().is_none() { continue }
        // B's own encoding of the program: n string constants, one method of 2n+1 instructions
        let mut consts: Vec<codec::Const> = vec![codec::Const::Null];
        let mut code: Vec<codec::Ins> = vec![codec::Ins::Lit(0)];
        for i in 0..n {
            consts.push(codec::Const::Str(format!("row {} of the sweep é\n", i)));
            code.push(codec::Ins::Drop); code.push(codec::Ins::Print(consts.len() as u16 - 1, 0));
        }
        consts.push(codec::Const::Str("λ:".to_string()));
        let name = consts.len() as u16 - 1;
        consts.push(codec::Const::Method { name, arity: 0, locals: 0, code });
        let p = codec::Prog { entry: consts.len() as u16 - 1, consts, globals: vec![] };
        let bytes = codec::write(&p);
        let f = cli::write_file(&ctx.scratch, "w.bc", &bytes);
        let expected: String = (0..n).map(|i| format!("row {} of the sweep é\n", i)).collect();
        let e = cli::simple(&exe, &["execute", f.to_str().unwrap()]);
        let e2 = cli::run(&exe, &["execute"], Some(&bytes), None, &[], std::time::Duration::from_secs(20));
        ctx.count("programs", 1); ctx.count("cli_pipelines", 2);
        ctx.nontrivial(&n.to_le_bytes());
        for (how, r) in [("file", &e), ("stdin", &e2)] {
            if !r.ok() || r.stdout != expected.as_bytes() {
                ctx.violation("layout/file-not-loaded-as-the-program-it-denotes", "`fml execute` of an independently written file does not behave as the program the file denotes",
                    json!({"case": format!("{} print instructions, {} constants, {} bytes", n, p.consts.len(), bytes.len()), "first_bytes_hex": codec::hex(&bytes[..bytes.len().min(8)]),
                           "input": how, "exit": r.code, "stderr": r.err().chars().take(300).collect::<String>(), "cli": "fml execute w.bc"}));
            }
        }
    }
}

pub fn run(ctx: &mut Ctx) {
    bcprops::golden_files(ctx, Which::C04);
    emitted_files(ctx);
    loaded_files(ctx);
    bcprops::direct_programs(ctx, Which::C04, if ctx.quick() { 3 } else { 4 });
    let (syn_n, sem_n) = if ctx.quick() { (4, 3) } else { (5, 4) };
    bcprops::compiler_outputs(ctx, Which::C04, syn_n, sem_n);
}
