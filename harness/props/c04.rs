//! C04 — bytecode files follow the documented Feeny/FML binary layout.

use serde_json::json;
use super::super::cli;
use super::super::codec;
use super::super::explore::Ctx;
use super::super::pipeline;
use super::bcprops::{self, Which};

/// emitted *files*: `fml compile -o` to a fresh path, to a path that already holds a longer
/// file, into a directory, and to stdout must all be exactly the in-memory bytes
fn emitted_files(ctx: &mut Ctx) {
    ctx.stage("emitted files (processes)");
    let exe = ctx.exe.clone();
    let programs = ["print(\"hi\\n\")", "let x = 1; function f(a) -> a + x; print(\"~\\n\", f(2))",
        "let o = object begin let a = 1; function m() -> this.a end; print(\"~ λ\\n\", o.m())", "1"];
    for (i, src) in programs.iter().enumerate() {
        if ctx.take().is_none() { continue }
        let expected = match pipeline::compile_source(src) { Ok(b) => b, Err(_) => continue };
        let f = cli::write_file(&ctx.scratch, "e.fml", src.as_bytes());
        let ast = ctx.scratch.join("e.json");
        let p = cli::simple(&exe, &["parse", f.to_str().unwrap(), "-o", ast.to_str().unwrap()]);
        let fresh = ctx.scratch.join(format!("fresh{}.bc", i));
        let _ = std::fs::remove_file(&fresh);
        let c1 = cli::simple(&exe, &["compile", ast.to_str().unwrap(), "-o", fresh.to_str().unwrap()]);
        let stale = cli::write_file(&ctx.scratch, "stale.bc", &vec![0x5Au8; expected.len() + 300]);
        let c2 = cli::simple(&exe, &["compile", ast.to_str().unwrap(), "-o", stale.to_str().unwrap()]);
        let dir = ctx.scratch.join("outdir"); let _ = std::fs::create_dir_all(&dir);
        let c3 = cli::simple(&exe, &["compile", ast.to_str().unwrap(), "-o", dir.to_str().unwrap()]);
        let c4 = cli::simple(&exe, &["compile", ast.to_str().unwrap()]);
        ctx.count("programs", 1); ctx.count("cli_pipelines", 4);
        let got: Vec<(&str, Vec<u8>)> = vec![
            ("fresh path", std::fs::read(&fresh).unwrap_or_default()),
            ("path holding a longer file", std::fs::read(&stale).unwrap_or_default()),
            ("directory", std::fs::read(dir.join("e.bc")).unwrap_or_default()),
            ("stdout", c4.stdout.clone()),
        ];
        for (what, bytes) in got {
            if bytes != expected {
                ctx.violation(&format!("layout/emitted-file-differs/{}", what.replace(' ', "-")), "the file written by `fml compile` is not exactly the serialized program",
                    json!({"text": src, "target": what, "expected_len": expected.len(), "actual_len": bytes.len(),
                           "independent_reader": codec::read(&bytes).err(), "cli": "fml compile x.json -o <target>"}));
            }
        }
        ctx.nontrivial(src.as_bytes());
    }
}

pub fn run(ctx: &mut Ctx) {
    bcprops::golden_files(ctx, Which::C04);
    emitted_files(ctx);
    bcprops::direct_programs(ctx, Which::C04, if ctx.quick() { 3 } else { 4 });
    let (syn_n, sem_n) = if ctx.quick() { (4, 3) } else { (5, 4) };
    bcprops::compiler_outputs(ctx, Which::C04, syn_n, sem_n);
}
