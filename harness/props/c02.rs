//! C02 — every compiled program is well-formed, operand-stack-balanced bytecode.
//! U-SYN(n) x 8 placements (+ U-PAIR shapes + corpus): compile with the real compiler, decode the
//! real bytes with the independent codec B, validate with V (references, labels, frames, and the
//! exhaustive (pc, depth) exploration of every method).

use serde_json::json;
use super::super::bcverify;
use super::super::codec;
use super::super::explore::{for_each_owned, Ctx};
use super::super::pipeline;
use super::super::syntax::*;
use super::super::universes::{pair, syn};
use super::selfcheck::corpus_files;

pub fn validate_source(ctx: &mut Ctx, universe: &str, text: &str) {
    let ast = match pipeline::parse(text) {
        Ok(a) => a,
        Err(e) => { ctx.count("parse_rejected", 1); ctx.violation("harness/unparsable", "generated text does not parse", json!({"universe": universe, "text": text, "error": e.chars().take(200).collect::<String>()})); return }
    };
    let prog = match pipeline::compile(&ast) { Ok(p) => p, Err(_) => { ctx.count("compile_rejected", 1); return } };
    let bytes = match pipeline::serialize(&prog) { Ok(b) => b, Err(e) => { ctx.count("serialize_rejected", 1); return } };
    ctx.count("programs", 1);
    let decoded = match codec::read(&bytes) {
        Ok(p) => p,
        Err(e) => { ctx.violation("decode/not-in-documented-layout", "the compiler's output cannot be decoded by the independent reader", json!({"universe": universe, "text": text, "error": e, "bytes_hex": codec::hex(&bytes)})); return }
    };
    let v = bcverify::verify(&decoded);
    ctx.count("states", v.states);
    ctx.count("transitions", v.transitions);
    ctx.count("methods_validated", v.methods);
    ctx.count("traces_validated_against_impl", 1);
    if decoded.instruction_count() != pipeline::code_len(&prog) {
        ctx.violation("wellformed/instruction-outside-every-method", "the in-memory program has instructions that belong to no method",
            json!({"universe": universe, "text": text, "in_methods": decoded.instruction_count(), "in_program": pipeline::code_len(&prog)}));
    }
    for fd in v.findings.iter().take(3) {
        ctx.violation(&fd.key, &fd.what, json!({"universe": universe, "text": text, "finding": fd.what, "cli": "fml parse | fml compile, then decode the .bc"}));
    }
    if v.methods >= 2 || v.states >= 8 { ctx.nontrivial(text.as_bytes()) }
    if ctx.want_sample() { ctx.sample(json!({"universe": universe, "text": text, "methods": v.methods, "abstract_states": v.states})) }
}

pub fn run(ctx: &mut Ctx) {
    ctx.stage("CORPUS");
    let root = std::env::var("VERIF_REPO").unwrap_or("/repo".to_string());
    for p in corpus_files(&root) {
        if ctx.take().is_none() { continue }
        if let Ok(src) = std::fs::read_to_string(&p) { if pipeline::parse(&src).is_ok() { validate_source(ctx, "CORPUS", &src) } }
    }
    ctx.stage("U-SCALE");
    for (_name, prog) in super::super::universes::scale::programs(!ctx.quick()) { if ctx.take().is_some() { validate_source(ctx, "U-SCALE", &show(&prog)) } }
    for (_name, prog) in super::super::universes::scale::programs_u16() { if ctx.take().is_some() { validate_source(ctx, "U-SCALE", &show(&prog)) } }
    // scope programs: frame sizes and slot numbers of if/else + let combinations that U-SYN's size bound does not reach
    let scope_n = if ctx.quick() { 5 } else { 6 };
    let mut gs = super::c12::grammar();
    gs.prepare(scope_n);
    for n in 1..=scope_n {
        ctx.stage(&format!("U-SCOPE(N={})", n));
        for_each_owned(ctx, &gs, 1, n, n, |ctx, _s, seq| {
            for (frame, prog) in super::c12::frames(&seq) { if frame != "top" && (n < scope_n || frame == "function") { validate_source(ctx, "U-SCOPE", &show(&prog)) } }
        });
        if ctx.capped { break }
    }
    ctx.stage("U-PAIR(d=2) shapes");
    let ts = pair::templates(); let fs = pair::fillers();
    for t in &ts { for f in &fs {
        if ctx.take().is_none() { continue }
        let e = pair::fill(t, f);
        for kept in [false, true] { for frame in 0..4 { validate_source(ctx, "U-PAIR", &show(&pair::in_frame(&e, kept, frame))) } }
    } }
    let (all_placements, top_only) = if ctx.quick() { (4, 5) } else { (5, 6) };
    let mut g = syn::grammar();
    g.prepare(top_only);
    for n in 1..=top_only {
        let placements: Vec<usize> = if n <= all_placements { (0..8).collect() } else { vec![0, 1] };
        ctx.stage(&format!("U-SYN(n={}) x {} placements", n, placements.len()));
        for_each_owned(ctx, &g, syn::X, n, n, |ctx, _s, e| {
            for pl in &placements {
                let text = show(&syn::place(&e, *pl));
                validate_source(ctx, "U-SYN", &text);
                ctx.count(&format!("placement:{}", syn::PLACEMENTS[*pl]), 1);
            }
        });
        ctx.note(&format!("U-SYN(n={}): {} trees (exact count from the grammar) x {} placements", n, g.count(syn::X, n), placements.len()));
        if ctx.capped { break }
    }
}
