//! C10 — failing programs stop cleanly at the fault; the toolchain never crashes natively.
//! U-FAULT: base programs x every statement position x fault classes x nesting contexts (oracle R,
//! in-process and as real processes); guaranteed-invalid sources; cyclic heaps and long chains
//! reaching print and dispatch; deep recursion; deep source nesting.

use serde_json::json;
use std::time::Duration;
use super::super::cli::{self, CliResult};
use super::super::explore::Ctx;
use super::super::pipeline;
use super::super::refsem::{self, Status};
use super::super::syntax::*;
use super::common::semantic_case;
use super::c07::tokens;

fn faults() -> Vec<(&'static str, E)> {
    let go = || var("go"); let ga = || var("ga");
    vec![
        ("unknown-variable-read", var("nosuch")), ("unknown-variable-assign", set("nosuch", int(1))),
        ("unknown-function", call("nosuch", vec![])), ("unknown-function-with-args", call("nosuch", vec![int(1), int(2)])),
        ("unknown-method/int", mcall(int(1), "nosuch", vec![])), ("unknown-method/bool", mcall(E::Bool(true), "nosuch", vec![])),
        ("unknown-method/null", mcall(E::Null, "nosuch", vec![])), ("unknown-method/array", mcall(ga(), "nosuch", vec![])),
        ("unknown-method/object", mcall(go(), "nosuch", vec![])), ("unknown-method/inherited", mcall(var("gc"), "nosuch", vec![int(1)])),
        ("unknown-field-get", fget(go(), "nosuch")), ("unknown-field-set", fset(go(), "nosuch", int(1))),
        ("field-of-int", fget(int(1), "a")), ("field-of-array", fget(ga(), "a")), ("field-set-on-null", fset(E::Null, "a", int(1))),
        ("arity/function-few", call("f", vec![])), ("arity/function-many", call("f", vec![int(1), int(2)])),
        ("arity/method", mcall(go(), "m", vec![])), ("arity/method-many", mcall(go(), "m", vec![int(1), int(2)])),
        ("arity/builtin-int", mcall(int(1), "+", vec![int(1), int(2)])), ("arity/builtin-get", mcall(ga(), "get", vec![])),
        ("arity/builtin-set", block(vec![mcall(ga(), "set", vec![int(0)]), int(0)])), ("arity/builtin-null", mcall(E::Null, "==", vec![])),
        ("index/-1", idx(ga(), int(-1))), ("index/len", idx(ga(), int(3))), ("index/bool", idx(ga(), E::Bool(true))),
        ("index/null-set", block(vec![idxset(ga(), E::Null, int(1)), int(0)])), ("index/len-set", block(vec![idxset(ga(), int(3), int(1)), int(0)])),
        ("size/-1", array(int(-1), int(0))), ("size/bool", array(E::Bool(true), int(0))), ("size/null-compound", array(E::Null, call("f", vec![int(1)]))),
        ("size/-1-compound", array(int(-1), call("f", vec![int(1)]))),
        ("kind/int+bool", binop("+", int(1), E::Bool(true))), ("kind/int<null", binop("<", int(1), E::Null)), ("kind/bool&int", binop("&", E::Bool(true), int(1))),
        ("kind/bool|null", binop("|", E::Bool(true), E::Null)), ("kind/null+int", binop("+", E::Null, int(1))), ("kind/array+int", binop("+", ga(), int(1))),
        ("kind/object<int", binop("<", go(), int(1))), ("kind/int*object", binop("*", int(2), go())), ("kind/bool+bool", binop("+", E::Bool(true), E::Bool(true))),
        ("print/too-few", print("~", vec![])), ("print/too-many", print("x", vec![int(1)])), ("print/two-one", print("~ ~", vec![int(1)])),
        ("print/partial", print("a~b~c", vec![int(1)])),
        // escaped tildes print a literal ~ and consume no argument: they do not change the count
        ("print/too-many-next-to-escaped-tilde", print("75\\~ ~", vec![int(1), int(2)])), ("print/too-few-next-to-escaped-tilde", print("\\~ ~ ~", vec![int(1)])),
        ("print/only-escaped-tilde-with-argument", print("\\~", vec![int(1)])), ("print/bad-escape", print("a\\qb", vec![])),
        ("div/zero", binop("/", int(1), int(0))), ("mod/zero", binop("%", int(1), int(0))), ("div/min-1", binop("/", int(i32::MIN), int(-1))),
        ("div/zero-method", mcall(int(5), "/", vec![int(0)])),
        ("unknown-method/object==", binop("==", go(), int(1))), ("unknown-method/object!=null", binop("!=", go(), E::Null)),
        ("unknown-method/object-eq-word", mcall(go(), "eq", vec![E::Null])), ("unknown-method/inherited==", binop("==", var("gc"), var("gc"))),
    ]
}

fn prelude() -> Vec<E> {
    vec![
        let_("ga", array(int(3), int(0))),
        let_("go", object(None, vec![field("v", int(10)), method("m", &["k"], binop("+", fget(var("this"), "v"), var("k")))])),
        let_("gc", object(Some(var("go")), vec![])),
        fun("f", &["p"], binop("+", var("p"), int(1))),
    ]
}

const CONTEXTS: [&str; 10] = ["statement", "block", "if-body", "while-body", "function", "method", "two-calls-deep", "print-argument", "array-initializer", "field-initializer"];

/// place the faulting expression in a context; returns (extra definitions, statement)
fn in_context(fault: &E, ctx_kind: usize, tag: usize) -> (Vec<E>, E) {
    let fname = format!("h{}", tag);
    match ctx_kind {
        0 => (vec![], fault.clone()),
        1 => (vec![], block(vec![int(1), fault.clone(), print("AFTER-IN-BLOCK\\n", vec![])])),
        2 => (vec![], if_(E::Bool(true), block(vec![fault.clone(), print("AFTER-IN-IF\\n", vec![])]), Some(int(0)))),
        3 => (vec![let_(&format!("w{}", tag), E::Bool(true))], while_(var(&format!("w{}", tag)), block(vec![set(&format!("w{}", tag), E::Bool(false)), fault.clone(), print("AFTER-IN-LOOP\\n", vec![])]))),
        4 => (vec![fun(&fname, &[], block(vec![fault.clone(), print("AFTER-IN-FUNCTION\\n", vec![])]))], call(&fname, vec![])),
        5 => (vec![], mcall(object(None, vec![method("run", &[], block(vec![fault.clone(), print("AFTER-IN-METHOD\\n", vec![])]))]), "run", vec![])),
        6 => (vec![fun(&fname, &[], block(vec![fault.clone(), int(1)])), fun(&format!("{}o", fname), &[], block(vec![call(&fname, vec![]), print("AFTER-IN-OUTER\\n", vec![])]))], call(&format!("{}o", fname), vec![])),
        7 => (vec![], print("value ~ ~\\n", vec![int(1), fault.clone()])),
        8 => (vec![], array(int(2), block(vec![print("e", vec![]), fault.clone()]))),
        _ => (vec![], object(None, vec![field("a", int(1)), field("b", fault.clone())])),
    }
}

fn judge_process(ctx: &mut Ctx, what: &str, text: &str, r: &refsem::RefResult, res: &CliResult, args: &str) {
    ctx.count("cli_runs", 1);
    let expected_ok = r.status == Status::Ok;
    let mut problems: Vec<String> = vec![];
    if res.signal.is_some() || res.code.is_none() { problems.push(format!("process ended by signal {:?}", res.signal)) }
    if res.timed_out { problems.push("process did not terminate".to_string()) }
    if res.out() != r.out { problems.push("stdout is not exactly the output produced before the fault".to_string()) }
    if expected_ok {
        if res.code != Some(0) { problems.push(format!("successful program exits with {:?}", res.code)) }
        if !res.stderr.is_empty() { problems.push("successful program writes to stderr".to_string()) }
    } else {
        if res.code == Some(0) { problems.push("failing program exits with status 0".to_string()) }
        if res.stderr.is_empty() { problems.push("no diagnostic on stderr".to_string()) }
    }
    if !problems.is_empty() {
        let key = if res.signal.is_some() { "process/native-crash" } else if expected_ok { "process/successful-run-not-clean" } else { "process/failing-run-not-clean" };
        ctx.violation(key, "the process-level behaviour contradicts C10", json!({"what": what, "text": text, "problems": problems,
            "expected": {"status": if expected_ok { "ok" } else { "fail" }, "stdout": r.out}, "actual": {"exit": res.code, "signal": res.signal, "stdout": res.out(), "stderr": res.err().chars().take(300).collect::<String>()}, "cli": args}));
    }
}

fn fault_universe(ctx: &mut Ctx) {
    let fs = faults();
    let exe = ctx.exe.clone();
    let max_n = if ctx.quick() { 3 } else { 4 };
    ctx.stage("U-FAULT: positions x fault classes x contexts");
    for n in 1..=max_n {
        for pos in 0..=n {
            for (fi, (fname, fault)) in fs.iter().enumerate() {
                for ck in 0..CONTEXTS.len() {
                    if ctx.take().is_none() { continue }
                    // quick tier: all contexts for n == 1, three rotating contexts for larger n
                    if ctx.quick() && n > 1 && (ck + fi + pos) % 4 != 0 { continue }
                    let (defs, st) = in_context(fault, ck, 0);
                    let mut prog = prelude();
                    prog.extend(defs);
                    for i in 0..n {
                        if i == pos { prog.push(st.clone()) }
                        prog.push(print(&format!("S{}\\n", i + 1), vec![]));
                    }
                    if pos == n { prog.push(st.clone()) }
                    ctx.count("programs", 1);
                    ctx.count(&format!("fault:{}", fname.split('/').next().unwrap()), 1);
                    let j = semantic_case(ctx, "U-FAULT", &prog);
                    if !j.compared { continue }
                    ctx.count("faults_injected", 1);
                    // as a real process: every case for n == 1, every third otherwise
                    if n == 1 || (fi + pos + ck) % 3 == 0 {
                        let text = show(&prog);
                        let f = cli::write_file(&ctx.scratch, "f.fml", text.as_bytes());
                        let res = cli::simple(&exe, &["run", f.to_str().unwrap()]);
                        judge_process(ctx, "fml run", &text, &j.reference, &res, "fml run <file>");
                        if (fi + ck) % 5 == 0 {
                            let ast = ctx.scratch.join("f.json"); let bcf = ctx.scratch.join("f.bc");
                            let _ = std::fs::remove_file(&ast); let _ = std::fs::remove_file(&bcf);
                            let p = cli::simple(&exe, &["parse", f.to_str().unwrap(), "-o", ast.to_str().unwrap()]);
                            let c = cli::simple(&exe, &["compile", ast.to_str().unwrap(), "-o", bcf.to_str().unwrap()]);
                            if p.ok() && c.ok() {
                                let e = cli::simple(&exe, &["execute", bcf.to_str().unwrap()]);
                                judge_process(ctx, "fml execute", &text, &j.reference, &e, "fml parse | fml compile | fml execute");
                            }
                        }
                    }
                }
            }
        }
    }
    // control: the same programs without any fault succeed cleanly
    ctx.stage("U-FAULT: fault-free controls");
    for n in 0..=max_n {
        if ctx.take().is_none() { continue }
        let mut prog = prelude();
        for i in 0..n { prog.push(print(&format!("S{}\\n", i + 1), vec![])) }
        let j = semantic_case(ctx, "U-FAULT/control", &prog);
        let text = show(&prog);
        let f = cli::write_file(&ctx.scratch, "f.fml", text.as_bytes());
        let res = cli::simple(&exe, &["run", f.to_str().unwrap()]);
        judge_process(ctx, "fml run", &text, &j.reference, &res, "fml run <file>");
        ctx.count("programs", 1);
    }
}

fn judge_rejection(ctx: &mut Ctx, what: &str, text: &str, res: &CliResult) {
    ctx.count("cli_runs", 1);
    let mut problems = vec![];
    if res.signal.is_some() || res.code.is_none() { problems.push(format!("process ended by signal {:?}", res.signal)) }
    if res.code == Some(0) { problems.push("invalid source accepted (exit 0)".to_string()) }
    if !res.stdout.is_empty() { problems.push("invalid source produced output on stdout".to_string()) }
    if res.stderr.is_empty() { problems.push("no diagnostic on stderr".to_string()) }
    if !problems.is_empty() {
        ctx.violation(if res.signal.is_some() { "invalid-source/native-crash" } else { "invalid-source/not-rejected-cleanly" }, "an invalid source is not rejected cleanly",
            json!({"mutation": what, "text": text, "problems": problems, "exit": res.code, "stdout": res.out().chars().take(200).collect::<String>(), "stderr": res.err().chars().take(200).collect::<String>(), "cli": "fml run <file>"}));
    }
}

fn invalid_sources(ctx: &mut Ctx) {
    ctx.stage("guaranteed-invalid sources (token-level mutations)");
    let exe = ctx.exe.clone();
    let bases = [
        "print(\"a\\n\"); let x = 1; if x < 2 then print(\"b\\n\") else begin print(\"c\\n\") end",
        "function f(a, b) -> begin let t = a + b; t * 2 end; print(\"~\\n\", f(1, 2))",
        "let o = object extends null begin let a = 1; function m(p) -> this.a + p end; print(\"~\\n\", o.m(array(2, 0)[1]))",
        "let i = 0; while i < 2 do begin print(\"~\\n\", i); i <- i + 1 end",
    ];
    for base in bases {
        let toks = tokens(base);
        let mut mutants: Vec<(String, String)> = vec![];
        // deletion of each closing bracket / end
        for (i, t) in toks.iter().enumerate() {
            if ["end", ")", "]"].contains(&t.as_str()) {
                let mut v = toks.clone(); v.remove(i);
                mutants.push((format!("closing `{}` (token {}) deleted", t, i), v.join(" ")));
            }
        }
        // insertions at every token position
        for i in 0..=toks.len() {
            for ins in [")", "]", "end", "$", "#", "@", "99999999999", "+ *", "then then"] {
                // a stray closer / illegal character / out-of-range literal / two adjacent binary operators
                if ins == "+ *" && (i == 0 || i == toks.len()) { continue }
                let mut v = toks.clone(); v.insert(i, ins.to_string());
                mutants.push((format!("`{}` inserted before token {}", ins, i), v.join(" ")));
            }
        }
        mutants.push(("unterminated string at the end".to_string(), format!("{} ; print(\"abc", base)));
        mutants.push(("unterminated block comment at the end".to_string(), format!("{} /* abc", base)));
        let stride = if ctx.quick() { 4 } else { 1 };
        for (mi, (what, text)) in mutants.into_iter().enumerate() {
            if ctx.take().is_none() { continue }
            if mi % stride != 0 { continue }
            // the in-process parser must refuse it as well
            ctx.count("programs", 1);
            if pipeline::parse(&text).is_ok() && !what.contains("99999999999") {
                // some insertions are legal by accident (e.g. `end` closing nothing is never legal, but `)` after `(` ...): only bracket-balanced accidents are skipped
                let balanced = { let t = tokens(&text); let opens = t.iter().filter(|x| ["(", "[", "begin"].contains(&x.as_str())).count(); let closes = t.iter().filter(|x| [")", "]", "end"].contains(&x.as_str())).count(); opens == closes };
                if balanced { ctx.count("accidentally_valid", 1); continue }
            }
            let f = cli::write_file(&ctx.scratch, "bad.fml", text.as_bytes());
            let res = cli::simple(&exe, &["run", f.to_str().unwrap()]);
            judge_rejection(ctx, &what, &text, &res);
            ctx.nontrivial(text.as_bytes());
        }
    }
}

fn judge_no_crash(ctx: &mut Ctx, what: &str, text: &str, res: &CliResult, must_start_with: &str, must_succeed: Option<&str>) {
    ctx.count("cli_runs", 1);
    let mut problems = vec![];
    if res.signal.is_some() || res.code.is_none() { problems.push(format!("process ended by signal {:?}", res.signal)) }
    if res.timed_out { problems.push("process did not terminate within the horizon".to_string()) }
    if !res.out().starts_with(must_start_with) { problems.push("earlier output is missing".to_string()) }
    if res.code == Some(0) && !res.stderr.is_empty() { problems.push("exit 0 with text on stderr".to_string()) }
    if res.code != Some(0) && res.code.is_some() && res.stderr.is_empty() { problems.push("failure without a diagnostic".to_string()) }
    if let Some(expected) = must_succeed { if res.code != Some(0) || res.out() != expected { problems.push("program must succeed with the expected output".to_string()) } }
    if !problems.is_empty() {
        ctx.violation(if res.signal.is_some() { "structure/native-crash" } else if res.timed_out { "structure/hang" } else { "structure/not-clean" }, "a legitimate program makes the toolchain crash, hang or misreport",
            json!({"what": what, "text": if text.len() > 600 { format!("{} ... ({} chars)", &text[..300], text.len()) } else { text.to_string() }, "problems": problems, "exit": res.code, "signal": res.signal,
                   "stdout": res.out().chars().take(200).collect::<String>(), "stderr": res.err().chars().take(300).collect::<String>(), "cli": "fml run <file>"}));
    }
}

fn run_text(ctx: &mut Ctx, text: &str, secs: u64) -> CliResult {
    let exe = ctx.exe.clone();
    let f = cli::write_file(&ctx.scratch, "s.fml", text.as_bytes());
    cli::run(&exe, &["run", f.to_str().unwrap()], None, None, &[], Duration::from_secs(secs))
}

fn structures(ctx: &mut Ctx) {
    ctx.stage("cyclic heaps reaching print and dispatch");
    let ks: Vec<usize> = if ctx.quick() { vec![1, 2, 3, 5] } else { vec![1, 2, 3, 4, 5, 10, 100, 1000] };
    for k in ks {
        for link in ["field", "cell", "parent-and-field", "mixed"] {
            for reach in ["print", "dispatch-inherited", "dispatch-unknown", "print-shared-acyclic"] {
                if ctx.take().is_none() { continue }
                // nodes n0..n(k-1); node i links to node (i+1) % k
                let mut s = String::from("print(\"start\\n\");\n");
                for i in 0..k {
                    match (link, i % 2) {
                        ("field", _) | ("mixed", 0) => s.push_str(&format!("let n{} = object extends 41 begin let next = null; let id = {} end;\n", i, i)),
                        ("cell", _) | ("mixed", _) => s.push_str(&format!("let n{} = array(2, {});\n", i, i)),
                        _ => s.push_str(&format!("let n{} = object extends (if {} == 0 then 41 else n{}) begin let next = null; let id = {} end;\n", i, i, if i == 0 { 0 } else { i - 1 }, i)),
                    }
                }
                let acyclic = reach == "print-shared-acyclic";
                // the node from which everything is reached
                let mut root = "n0".to_string();
                if link == "parent-and-field" {
                    // parents: n(i) extends n(i-1) ... extends 41. cycle: n0.next <- n(k-1); acyclic control: n(k-1).next <- n0 (shared, no cycle)
                    root = format!("n{}", k - 1);
                    if acyclic { if k > 1 { s.push_str(&format!("n{}.next <- n0;\n", k - 1)) } } else { s.push_str(&format!("n0.next <- n{};\n", k - 1)) }
                } else {
                    for i in 0..k {
                        let j = (i + 1) % k;
                        if acyclic && j == 0 { continue }
                        match (link, i % 2) {
                            ("cell", _) | ("mixed", 1) => s.push_str(&format!("n{}[1] <- n{};\n", i, j)),
                            _ => s.push_str(&format!("n{}.next <- n{};\n", i, j)),
                        }
                    }
                    // acyclic control with sharing: the last node is referenced twice
                    if acyclic && k > 1 { match (link, 0) { ("cell", _) => s.push_str(&format!("n0[0] <- n{};\n", k - 1)), _ => {} } }
                }
                s.push_str("print(\"linked\\n\");\n");
                let mut must_succeed: Option<String> = None;
                match reach {
                    // text and another placeholder precede the one bound to the (possibly cyclic) value
                    "print" | "print-shared-acyclic" => s.push_str(&format!("print(\"seven ~ then ~\\n\", 7, {});\nprint(\"after\\n\")", root)),
                    "dispatch-inherited" => {
                        // `+` is found in the integer at the end of the parent chain: the cycle must not matter
                        if link == "cell" { s.push_str("print(\"~\\n\", n0[0]);\nprint(\"after\\n\")"); must_succeed = Some("start\nlinked\n0\nafter\n".to_string()) }
                        else { s.push_str(&format!("print(\"~\\n\", {} + 1);\nprint(\"after\\n\")", root)); must_succeed = Some("start\nlinked\n42\nafter\n".to_string()) }
                    }
                    _ => s.push_str(&format!("{}.nosuch(1);\nprint(\"after\\n\")", root)),
                }
                ctx.describe(&s);
                let res = run_text(ctx, &s, 30);
                ctx.count("programs", 1);
                ctx.nontrivial(s.as_bytes());
                // a print that fails must leave nothing of its own text behind (the statement did not complete)
                if (reach == "print") && res.code.is_some() && res.code != Some(0) && res.out() != "start\nlinked\n" {
                    ctx.violation("structure/failing-print-leaves-partial-output", "a print that fails on a cyclic value leaves part of its text on stdout",
                        json!({"what": format!("{}-cycle via {}", k, link), "text": s, "stdout": res.out().chars().take(300).collect::<String>(), "expected_stdout": "start\nlinked\n", "exit": res.code, "cli": "fml run <file>"}));
                }
                // acyclic sharing must print successfully
                if acyclic && res.code != Some(0) { judge_no_crash(ctx, &format!("{} acyclic nodes via {} -> {}", k, link, reach), &s, &res, "start\nlinked\n", Some("\u{0}")) }
                else { judge_no_crash(ctx, &format!("{}-cycle via {} -> {}", k, link, reach), &s, &res, "start\nlinked\n", must_succeed.as_deref()) }
            }
        }
    }
    ctx.stage("cyclic print on a large heap");
    for n in (if ctx.quick() { vec![2_000usize, 60_000] } else { vec![100, 2_000, 20_000, 60_000, 300_000] }) {
        if ctx.take().is_none() { continue }
        let s = format!("print(\"start\\n\");\nlet i = 0; while i < {} do begin object begin let a = i end; i <- i + 1 end;\nlet p = object begin let next = null end; let q = object begin let next = p end; p.next <- q;\nprint(\"linked\\n\");\nprint(\"~\\n\", p);\nprint(\"after\\n\")", n);
        ctx.describe(&s);
        let res = run_text(ctx, &s, 60);
        ctx.count("programs", 1); ctx.nontrivial(s.as_bytes());
        judge_no_crash(ctx, &format!("2-cycle printed after {} unrelated allocations", n), &s, &res, "start\nlinked\n", None);
    }
    ctx.stage("long acyclic chains reaching print and dispatch");
    // the property quantifies over acyclic chains of up to 10^3 links
    let lens: Vec<usize> = if ctx.quick() { vec![10, 1000] } else { vec![10, 100, 500, 1000] };
    for len in lens {
        for kind in ["arrays", "fields", "parents"] {
            if ctx.take().is_none() { continue }
            let mut s = String::from("print(\"start\\n\");\n");
            let (init, step, finish, expect_tail) = match kind {
                "arrays" => ("let c = 7;\n", "c <- array(1, c)", "print(\"done\\n\"); let p = c; let d = 0; while d < N do begin p <- p[0]; d <- d + 1 end; print(\"~\\n\", p)", "done\n7\n"),
                "fields" => ("let c = 7;\n", "c <- object begin let f = c end", "print(\"done\\n\"); let p = c; let d = 0; while d < N do begin p <- p.f; d <- d + 1 end; print(\"~\\n\", p)", "done\n7\n"),
                _ => ("let c = 7;\n", "c <- object extends c begin end", "print(\"done\\n\"); print(\"~\\n\", c + 1)", "done\n8\n"),
            };
            s.push_str(init);
            s.push_str(&format!("let i = 0; while i < {} do begin {}; i <- i + 1 end;\n", len, step));
            s.push_str(&finish.replace("N", &len.to_string()));
            s.push_str(";\nprint(\"~\\n\", null == c)"); // touch the chain once more without rendering it
            ctx.describe(&s);
            let res = run_text(ctx, &s, 60);
            ctx.count("programs", 1); ctx.nontrivial(s.as_bytes());
            judge_no_crash(ctx, &format!("chain of {} {} answered at the far end", len, kind), &s, &res, "start\n", Some(&format!("start\n{}false\n", expect_tail)));
            // printing the whole chain: any clean outcome is fine, a native crash is not
            let s2 = format!("print(\"start\\n\");\nlet c = 7;\nlet i = 0; while i < {} do begin {}; i <- i + 1 end;\nprint(\"~\\n\", c)", len, step);
            let res2 = run_text(ctx, &s2, 60);
            ctx.count("programs", 1);
            judge_no_crash(ctx, &format!("printing a chain of {} {}", len, kind), &s2, &res2, "start\n", None);
        }
    }
    ctx.stage("FML call depth");
    // ... FML call depth up to 10^5
    let depths: Vec<usize> = if ctx.quick() { vec![10, 1000, 100000] } else { vec![10, 100, 1000, 10000, 50000, 100000] };
    for d in depths {
        if ctx.take().is_none() { continue }
        let s = format!("function down(n) -> if n == 0 then 0 else 1 + down(n - 1);\nprint(\"start\\n\");\nprint(\"~\\n\", down({}))", d);
        let res = run_text(ctx, &s, 120);
        ctx.count("programs", 1); ctx.nontrivial(s.as_bytes());
        judge_no_crash(ctx, &format!("recursion depth {}", d), &s, &res, "start\n", Some(&format!("start\n{}\n", d)));
        let s = format!("let o = object begin function down(n) -> if n == 0 then 0 else 1 + this.down(n - 1) end;\nprint(\"start\\n\");\nprint(\"~\\n\", o.down({}))", d);
        let res = run_text(ctx, &s, 120);
        ctx.count("programs", 1);
        judge_no_crash(ctx, &format!("method recursion depth {}", d), &s, &res, "start\n", Some(&format!("start\n{}\n", d)));
    }
    ctx.stage("faults at the bottom of a deep call stack");
    // a fault 10..10^5 FML frames deep ends the program as cleanly as at top level (printing the cyclic
    // object is not among the faults: what a cyclic print yields is unspecified as long as nothing crashes)
    let depths: Vec<usize> = if ctx.quick() { vec![10, 100000] } else { vec![10, 1000, 100000] };
    for d in depths {
        for (what, bottom) in [("division by zero", "1 / 0"), ("unknown variable", "nosuch"), ("unknown method", "n.nosuch()"), ("print arity", "print(\"~ ~\", n)"), ("index", "cyc.a[5]"), ("field of a primitive", "n.nosuch")] {
            if ctx.take().is_none() { continue }
            let s = format!("let cyc = object begin let me = null; let a = array(1, 0) end;\ncyc.me <- cyc;\nfunction down(n) -> if n == 0 then begin print(\"bottom\\n\"); {}; print(\"not reached\\n\") end else 1 + down(n - 1);\nprint(\"start\\n\");\nprint(\"~\\n\", down({}));\nprint(\"not reached either\\n\")", bottom, d);
            ctx.describe(&s);
            let res = run_text(ctx, &s, 120);
            ctx.count("programs", 1); ctx.nontrivial(s.as_bytes());
            // a clean failing run: exit status 1..127 (no signal), output exactly up to the fault
            let clean = matches!(res.code, Some(c) if c > 0 && c < 128) && res.out() == "start\nbottom\n";
            ctx.count("cli_runs", 1);
            if !clean {
                let mut problems = vec![];
                if res.signal.is_some() || res.code.is_none() { problems.push(format!("process ended by signal {:?}", res.signal)) }
                if res.timed_out { problems.push("process did not terminate within the horizon".to_string()) }
                if res.code == Some(0) { problems.push("the faulting program reports success".to_string()) }
                if res.out() != "start\nbottom\n" { problems.push("output is not exactly what was printed before the fault".to_string()) }
                if res.stderr.is_empty() { problems.push("failure without a diagnostic".to_string()) }
                ctx.violation(if res.signal.is_some() { "structure/native-crash" } else if res.timed_out { "structure/hang" } else { "structure/not-clean" }, "a fault deep in the call stack does not end the program cleanly",
                    json!({"what": format!("{} {} frames deep", what, d), "text": s, "problems": problems, "exit": res.code, "signal": res.signal,
                           "stdout": res.out().chars().take(200).collect::<String>(), "stderr": res.err().chars().take(300).collect::<String>(), "cli": "fml run <file>"}));
            }
        }
    }
    ctx.stage("source nesting depth");
    // ... source nesting depth up to 200
    let nest: Vec<usize> = if ctx.quick() { vec![50, 200] } else { vec![25, 50, 100, 150, 200] };
    for d in nest {
        let shapes: Vec<(&str, String, String, &str)> = vec![
            ("parentheses", "(".repeat(d), ")".repeat(d), "1"),
            ("blocks", "begin ".repeat(d), " end".repeat(d), "1"),
            ("calls", "id(".repeat(d), ")".repeat(d), "1"),
            ("if", "if true then ".repeat(d), String::new(), "1"),
            ("if-else", "if false then 0 else ".repeat(d), String::new(), "1"),
            ("let", (0..d).map(|i| format!("let v{} = ", i)).collect::<String>(), String::new(), "1"),
            ("operators", "1 + (".repeat(d), ")".repeat(d), "1"),
            ("arrays", "array(1, ".repeat(d), ")".repeat(d), "1"),
            ("objects", "object begin let f = ".repeat(d), " end".repeat(d), "1"),
            ("index", "a[".repeat(d), "]".repeat(d), "0"),
            ("print", "print(\"~\", ".repeat(d), ")".repeat(d), "1"),
            ("while", "while false do ".repeat(d), String::new(), "1"),
            ("fields", "o".to_string(), ".f".repeat(d), ""),
            ("method-chain", "o".to_string(), ".me()".repeat(d), ""),
        ];
        for (name, open, close, core) in shapes {
            if ctx.take().is_none() { continue }
            let s = format!("function id(x) -> x;\nlet a = array(1, 0);\nlet o = object begin let f = null; function me() -> this end;\no.f <- o;\nprint(\"start\\n\");\nlet r = {}{}{};\nprint(\"end\\n\")", open, core, close);
            ctx.describe(&s);
            let res = run_text(ctx, &s, 60);
            ctx.count("programs", 1); ctx.nontrivial(s.as_bytes());
            // must run to completion: run accepts nesting far deeper than this
            let ok = res.code == Some(0) && res.out().starts_with("start\n") && res.out().ends_with("end\n");
            if !ok { judge_no_crash(ctx, &format!("{} nested {} deep", name, d), &s, &res, "start\n", Some("\u{0}")) } else { ctx.count("cli_runs", 1) }
        }
    }
}

pub fn run(ctx: &mut Ctx) {
    fault_universe(ctx);
    invalid_sources(ctx);
    structures(ctx);
}
