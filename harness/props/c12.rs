//! C12 — lexical scoping. U-SCOPE(N): every statement sequence with <= N statement nodes over
//! {let v = k, v <- k, print v, begin..end, if c then S [else S], while-once S, g(), o.m()} with
//! v in {x, y}, fresh constants, in six frame kinds. Oracle: R.

use super::super::explore::{for_each_owned, Ctx, Grammar};
use super::super::syntax::*;
use super::common::semantic_case;

const STMT: usize = 0;
const SEQ: usize = 1;
const K: i32 = -777; // placeholder for a fresh constant

pub fn grammar() -> Grammar<E> {
    let mut g: Grammar<E> = Grammar::new(2);
    for v in ["x", "y"] {
        g.leaf(STMT, move || let_(v, int(K)));
        g.leaf(STMT, move || set(v, int(K)));
        g.leaf(STMT, move || print(&format!("<{}=~>", v), vec![var(v)]));
    }
    // initialisers / assigned values that read a variable - including the one being declared
    // (`let x = x + K` must read the OUTER x)
    g.leaf(STMT, || let_("x", binop("+", var("x"), int(K))));
    // `let` is an expression: it may sit inside an argument, and still binds in the enclosing scope
    g.leaf(STMT, || call("id", vec![let_("x", int(K))]));
    g.leaf(STMT, || print("<let y=~>", vec![let_("y", int(K))]));
    g.prod(STMT, &[SEQ], |mut k| k.pop().unwrap()); // begin .. end (SEQ is carried as a Block)
    for c in [true, false] {
        g.prod(STMT, &[STMT], move |mut k| if_(E::Bool(c), k.pop().unwrap(), None));
        g.prod(STMT, &[STMT, STMT], move |mut k| { let f = k.pop().unwrap(); let t = k.pop().unwrap(); if_(E::Bool(c), t, Some(f)) });
    }
    g.prod(STMT, &[STMT], |mut k| while_(var("@w"), k.pop().unwrap()));
    g.prod_w(STMT, 2, &[SEQ], |mut k| call("@f", vec![k.pop().unwrap()]));
    g.prod_w(STMT, 2, &[SEQ], |mut k| mcall(E::Null, "@m", vec![k.pop().unwrap()]));
    g.prod_w(SEQ, 0, &[STMT], |mut k| block(vec![k.pop().unwrap()]));
    g.prod_w(SEQ, 0, &[STMT, SEQ], |mut k| {
        let rest = k.pop().unwrap(); let first = k.pop().unwrap();
        let mut v = vec![first];
        if let E::Block(r) = rest { v.extend(r) }
        block(v)
    });
    g
}

struct Inst { next_k: i32, loops: usize, funs: Vec<E> }

/// replace placeholders: fresh constants, per-loop guard globals, callee definitions
fn inst(e: &E, st: &mut Inst) -> E {
    use E::*;
    match e {
        Int(k) if *k == K => { st.next_k += 1; Int(st.next_k) }
        While(c, body) if **c == var("@w") => {
            st.loops += 1;
            let w = format!("w{}", st.loops);
            let inner = inst(body, st);
            while_(var(&w), block(vec![set(&w, E::Bool(false)), inner]))
        }
        Call(n, a) if n == "@f" => {
            let body = inst(&a[0], st);
            let name = format!("g{}", st.funs.len() + 1);
            st.funs.push(fun(&name, &[], body));
            call(&name, vec![])
        }
        MCall(_, n, a) if n == "@m" => {
            let body = inst(&a[0], st);
            mcall(object(None, vec![field("x", int(7)), method("m", &[], body)]), "m", vec![])
        }
        Let(n, v) => Let(n.clone(), b(inst(v, st))),
        Set(n, v) => Set(n.clone(), b(inst(v, st))),
        Block(v) => Block(v.iter().map(|x| inst(x, st)).collect()),
        If(c, t, f) => If(c.clone(), b(inst(t, st)), f.as_ref().map(|x| b(inst(x, st)))),
        While(c, body) => While(c.clone(), b(inst(body, st))),
        other => other.clone(),
    }
}

pub fn frames(seq: &E) -> Vec<(&'static str, Vec<E>)> {
    let mut st = Inst { next_k: 9, loops: 0, funs: vec![] };
    let body = inst(seq, &mut st);
    let stmts = if let E::Block(v) = &body { v.clone() } else { vec![body.clone()] };
    let mut prelude: Vec<E> = (1..=st.loops).map(|i| let_(&format!("w{}", i), E::Bool(true))).collect();
    prelude.push(fun("id", &["v"], var("v")));
    prelude.extend(st.funs.iter().cloned());
    let tail_xy = print("|~ ~", vec![var("x"), var("y")]);
    let mut out = vec![];
    // (a) top level
    let mut a = prelude.clone(); a.extend(stmts.iter().cloned());
    out.push(("top", a));
    // (b) top-level block below globals x, y
    let mut bb = prelude.clone();
    bb.extend(vec![let_("x", int(1)), let_("y", int(2)), block(stmts.clone()), tail_xy.clone()]);
    out.push(("block", bb));
    // (c) function body with parameter x, globals x, y
    let mut c = prelude.clone();
    c.extend(vec![let_("x", int(1)), let_("y", int(2)), fun("f", &["x"], block(stmts.clone())), call("f", vec![int(5)]), tail_xy.clone()]);
    out.push(("function", c));
    // (d) method body with parameter x, `this`, field x
    let mut d = prelude.clone();
    d.extend(vec![let_("y", int(2)),
        let_("o", object(None, vec![field("x", int(7)), method("m", &["x"], block(stmts.clone()))])),
        mcall(var("o"), "m", vec![int(5)]),
        print("|~ ~", vec![var("y"), fget(var("o"), "x")])]);
    out.push(("method", d));
    if stmts.len() == 1 {
        // bodies without a block: the statement lives directly in the function scope
        let mut c2 = prelude.clone();
        c2.extend(vec![let_("x", int(1)), let_("y", int(2)), fun("f", &["x"], stmts[0].clone()), call("f", vec![int(5)]), tail_xy.clone()]);
        out.push(("function-bare", c2));
        let mut d2 = prelude.clone();
        d2.extend(vec![let_("y", int(2)),
            let_("o", object(None, vec![field("x", int(7)), method("m", &["x"], stmts[0].clone())])),
            mcall(var("o"), "m", vec![int(5)]),
            print("|~ ~", vec![var("y"), fget(var("o"), "x")])]);
        out.push(("method-bare", d2));
    }
    out
}

/// does the sequence contain an if-else whose else-branch declares directly (a bare `let`)? The compiler
/// translates the alternative before the consequent, so this is where translation order and source
/// order part; one more size class is enumerated for exactly these sequences.
fn has_declaring_else(e: &E) -> bool {
    let mut found = false;
    e.walk(&mut |x| if let E::If(_, _, Some(f)) = x { if matches!(**f, E::Let(..)) { found = true } });
    found
}

pub fn run(ctx: &mut Ctx) {
    let bound = if ctx.quick() { 5 } else { 7 };
    let mut g = grammar();
    g.prepare(bound);
    for n in 1..=bound {
        ctx.stage(&format!("U-SCOPE(N={})", n));
        ctx.count(&format!("sequences:N={}", n), 0);
        for_each_owned(ctx, &g, SEQ, n, n, |ctx, _size, seq| {
            for (frame, prog) in frames(&seq) {
                let j = semantic_case(ctx, "U-SCOPE", &prog);
                ctx.count(&format!("frame:{}", frame), 1);
                ctx.count("programs", 1);
            }
        });
        if ctx.capped { break }
    }
    if ctx.quick() && !ctx.capped {
        // quick tier: N = 6 restricted to sequences with a declaring else-branch, in the block and function frames
        let mut g6 = grammar();
        g6.prepare(6);
        ctx.stage("U-SCOPE(N=6) restricted to sequences with an if-else whose else-branch is a bare let");
        for_each_owned(ctx, &g6, SEQ, 6, 6, |ctx, _size, seq| {
            if !has_declaring_else(&seq) { ctx.count("filtered_out:N=6", 1); return }
            for (frame, prog) in frames(&seq) {
                if frame != "block" && frame != "function" { continue }
                semantic_case(ctx, "U-SCOPE", &prog);
                ctx.count(&format!("frame:{}", frame), 1);
                ctx.count("programs", 1);
            }
        });
    }
    let total: u128 = (1..=bound).map(|n| g.count(SEQ, n)).sum();
    ctx.note(&format!("U-SCOPE: {} statement sequences with <= {} nodes (exact count from the grammar), x 4-6 frames each", total, bound));
}
