//! B — independent reader/writer of the documented Feeny/FML bytecode layout (C04's statement and
//! the doc comments of `OpCode` / `ProgramObject`). Shares no code with the repository.
//!
//! file   := u16 n, constant*n, u16 g, u16*g (globals), u16 entry            (all little endian)
//! const  := 0x00 i32 | 0x01 | 0x02 u32 len, utf8*len | 0x03 u16 name, u8 arity, u16 locals, u32 k, ins*k
//!         | 0x04 u16 name | 0x05 u16 m, u16*m | 0x06 u8 (0|1)
//! ins    := 0x00 label u16 | 0x01 lit u16 | 0x02 printf u16 u8 | 0x03 array | 0x04 object u16
//!         | 0x05 get-slot u16 | 0x06 set-slot u16 | 0x07 call-slot u16 u8 | 0x08 call u16 u8
//!         | 0x09 set-local u16 | 0x0A get-local u16 | 0x0B set-global u16 | 0x0C get-global u16
//!         | 0x0D branch u16 | 0x0E goto u16 | 0x0F return | 0x10 drop

#[derive(Clone, Debug, PartialEq, Eq, Hash)]
pub enum Const {
    Int(i32),
    Null,
    Str(String),
    Method { name: u16, arity: u8, locals: u16, code: Vec<Ins> },
    Slot(u16),
    Class(Vec<u16>),
    Bool(bool),
}

#[derive(Clone, Copy, Debug, PartialEq, Eq, Hash)]
pub enum Ins {
    Label(u16), Lit(u16), Print(u16, u8), Array, Object(u16), GetSlot(u16), SetSlot(u16),
    CallSlot(u16, u8), Call(u16, u8), SetLocal(u16), GetLocal(u16), SetGlobal(u16), GetGlobal(u16),
    Branch(u16), Goto(u16), Return, Drop,
}

#[derive(Clone, Debug, PartialEq, Eq, Hash)]
pub struct Prog { pub consts: Vec<Const>, pub globals: Vec<u16>, pub entry: u16 }

impl Ins {
    pub fn opcode(&self) -> u8 {
        use Ins::*;
        match self {
            Label(_) => 0x00, Lit(_) => 0x01, Print(..) => 0x02, Array => 0x03, Object(_) => 0x04, GetSlot(_) => 0x05,
            SetSlot(_) => 0x06, CallSlot(..) => 0x07, Call(..) => 0x08, SetLocal(_) => 0x09, GetLocal(_) => 0x0A,
            SetGlobal(_) => 0x0B, GetGlobal(_) => 0x0C, Branch(_) => 0x0D, Goto(_) => 0x0E, Return => 0x0F, Drop => 0x10,
        }
    }
    /// (u16 operand, u8 operand)
    pub fn operands(&self) -> (Option<u16>, Option<u8>) {
        use Ins::*;
        match *self {
            Label(a) | Lit(a) | Object(a) | GetSlot(a) | SetSlot(a) | SetLocal(a) | GetLocal(a) | SetGlobal(a) | GetGlobal(a)
            | Branch(a) | Goto(a) => (Some(a), None),
            Print(a, b) | CallSlot(a, b) | Call(a, b) => (Some(a), Some(b)),
            Array | Return | Drop => (None, None),
        }
    }
    pub fn from_parts(op: u8, a: u16, b: u8) -> Option<Ins> {
        use Ins::*;
        Some(match op {
            0x00 => Label(a), 0x01 => Lit(a), 0x02 => Print(a, b), 0x03 => Array, 0x04 => Object(a), 0x05 => GetSlot(a),
            0x06 => SetSlot(a), 0x07 => CallSlot(a, b), 0x08 => Call(a, b), 0x09 => SetLocal(a), 0x0A => GetLocal(a),
            0x0B => SetGlobal(a), 0x0C => GetGlobal(a), 0x0D => Branch(a), 0x0E => Goto(a), 0x0F => Return, 0x10 => Drop,
            _ => return None,
        })
    }
    /// 0 = no operand, 1 = u16, 2 = u16 + u8
    pub fn shape_of(op: u8) -> Option<u8> {
        match op { 0x03 | 0x0F | 0x10 => Some(0), 0x02 | 0x07 | 0x08 => Some(2), 0x00..=0x0E => Some(1), _ => None }
    }
}

pub fn write(p: &Prog) -> Vec<u8> {
    let mut o: Vec<u8> = vec![];
    o.extend_from_slice(&(p.consts.len() as u16).to_le_bytes());
    for c in &p.consts { write_const(c, &mut o) }
    o.extend_from_slice(&(p.globals.len() as u16).to_le_bytes());
    for g in &p.globals { o.extend_from_slice(&g.to_le_bytes()) }
    o.extend_from_slice(&p.entry.to_le_bytes());
    o
}

fn write_const(c: &Const, o: &mut Vec<u8>) {
    match c {
        Const::Int(i) => { o.push(0x00); o.extend_from_slice(&i.to_le_bytes()) }
        Const::Null => o.push(0x01),
        Const::Str(s) => { o.push(0x02); o.extend_from_slice(&(s.len() as u32).to_le_bytes()); o.extend_from_slice(s.as_bytes()) }
        Const::Method { name, arity, locals, code } => {
            o.push(0x03);
            o.extend_from_slice(&name.to_le_bytes());
            o.push(*arity);
            o.extend_from_slice(&locals.to_le_bytes());
            o.extend_from_slice(&(code.len() as u32).to_le_bytes());
            for i in code {
                o.push(i.opcode());
                let (a, b) = i.operands();
                if let Some(a) = a { o.extend_from_slice(&a.to_le_bytes()) }
                if let Some(b) = b { o.push(b) }
            }
        }
        Const::Slot(n) => { o.push(0x04); o.extend_from_slice(&n.to_le_bytes()) }
        Const::Class(m) => { o.push(0x05); o.extend_from_slice(&(m.len() as u16).to_le_bytes()); for x in m { o.extend_from_slice(&x.to_le_bytes()) } }
        Const::Bool(b) => { o.push(0x06); o.push(if *b { 1 } else { 0 }) }
    }
}

struct Rd<'a> { b: &'a [u8], p: usize }
impl<'a> Rd<'a> {
    fn u8(&mut self) -> Result<u8, String> { let v = *self.b.get(self.p).ok_or("unexpected end of file")?; self.p += 1; Ok(v) }
    fn u16(&mut self) -> Result<u16, String> { Ok(u16::from_le_bytes([self.u8()?, self.u8()?])) }
    fn u32(&mut self) -> Result<u32, String> { Ok(u32::from_le_bytes([self.u8()?, self.u8()?, self.u8()?, self.u8()?])) }
}

/// decode a whole file; error on unknown tags/opcodes, truncated input, invalid UTF-8 or trailing bytes
pub fn read(bytes: &[u8]) -> Result<Prog, String> {
    let mut r = Rd { b: bytes, p: 0 };
    let n = r.u16()? as usize;
    let mut consts = Vec::with_capacity(n);
    for ci in 0..n {
        let tag = r.u8()?;
        consts.push(match tag {
            0x00 => Const::Int(r.u32()? as i32),
            0x01 => Const::Null,
            0x02 => {
                let len = r.u32()? as usize;
                if r.p + len > bytes.len() { return Err(format!("constant {}: string of {} bytes runs past the end", ci, len)) }
                let s = std::str::from_utf8(&bytes[r.p..r.p + len]).map_err(|_| format!("constant {}: invalid UTF-8", ci))?.to_string();
                r.p += len;
                Const::Str(s)
            }
            0x03 => {
                let name = r.u16()?; let arity = r.u8()?; let locals = r.u16()?; let k = r.u32()? as usize;
                let mut code = Vec::with_capacity(k.min(1 << 16));
                for _ in 0..k {
                    let op = r.u8()?;
                    let shape = Ins::shape_of(op).ok_or(format!("constant {}: unknown opcode {:#x}", ci, op))?;
                    let a = if shape >= 1 { r.u16()? } else { 0 };
                    let b = if shape == 2 { r.u8()? } else { 0 };
                    code.push(Ins::from_parts(op, a, b).unwrap());
                }
                Const::Method { name, arity, locals, code }
            }
            0x04 => Const::Slot(r.u16()?),
            0x05 => { let m = r.u16()? as usize; let mut v = Vec::with_capacity(m); for _ in 0..m { v.push(r.u16()?) } Const::Class(v) }
            0x06 => match r.u8()? { 0 => Const::Bool(false), 1 => Const::Bool(true), x => return Err(format!("constant {}: boolean payload {}", ci, x)) },
            t => return Err(format!("constant {}: unknown tag {:#x}", ci, t)),
        });
    }
    let g = r.u16()? as usize;
    let mut globals = Vec::with_capacity(g);
    for _ in 0..g { globals.push(r.u16()?) }
    let entry = r.u16()?;
    if r.p != bytes.len() { return Err(format!("{} trailing bytes after the entry index", bytes.len() - r.p)) }
    Ok(Prog { consts, globals, entry })
}

impl Prog {
    pub fn str_at(&self, i: u16) -> Option<&str> {
        match self.consts.get(i as usize) { Some(Const::Str(s)) => Some(s.as_str()), _ => None }
    }
    pub fn methods(&self) -> Vec<(usize, &Const)> {
        self.consts.iter().enumerate().filter(|(_, c)| matches!(c, Const::Method { .. })).collect()
    }
    pub fn instruction_count(&self) -> usize {
        self.consts.iter().map(|c| if let Const::Method { code, .. } = c { code.len() } else { 0 }).sum()
    }
}

pub fn hex(b: &[u8]) -> String { b.iter().map(|x| format!("{:02x}", x)).collect() }
