import sys, os, subprocess, itertools
from concurrent.futures import ThreadPoolExecutor
sys.path.insert(0, '/root/scratch/py')
from refsem import *
I = lambda k: ('int', k); V = lambda n: ('var', n); B = lambda b: ('bool', b); N = ('null',)
TERMS = {'none': None, 'int': I(5), 'bool': B(True), 'array': ('array', I(2), I(9)), 'object': ('object', None, [('field', 'z', I(0))])}
SUBSETS = [(), ('m',), ('+',), ('get', 'set'), ('m', '+', 'get', 'set'), ('==',)]
def method(name, lvl):
    tag = '%s%d' % (name if name.isalpha() else {'+': 'plus', '==': 'eq'}[name], lvl)
    params = {'m': [], '+': ['k'], 'get': ['i'], 'set': ['i', 'w'], '==': ['k']}[name]
    return ('method', name, params, ('block', [('print', '<' + tag + '>', []), I(lvl)]))
CALLS = [('mcall', V('o'), 'm', []), ('binop', '+', V('o'), I(1)), ('idx', V('o'), I(0)), ('idxset', V('o'), I(0), I(4)),
         ('mcall', V('o'), '+', [I(1)]), ('mcall', V('o'), 'get', [I(1)]), ('mcall', V('o'), 'nosuch', []), ('mcall', V('o'), 'm', [I(1)]),
         ('mcall', V('o'), 'get', []), ('binop', '==', V('o'), I(5)), ('binop', '&', V('o'), B(False)), ('binop', '<', V('o'), I(9))]
def programs(maxd):
    for d in range(0, maxd + 1):
        for tname, term in TERMS.items():
            for subs in itertools.product(SUBSETS, repeat=d):
                stmts = [('let', 't', term if term is not None else N)]
                prev = 't'
                for lvl, sub in enumerate(subs):
                    stmts.append(('let', 'o%d' % lvl, ('object', V(prev) if not (lvl == 0 and term is None) else None, [('field', 'f%d' % lvl, I(lvl))] + [method(n, lvl) for n in sub])))
                    prev = 'o%d' % lvl
                stmts.append(('let', 'o', V(prev)))
                for c in CALLS:
                    kept = ('print', '=~\\n', [c]) if c[0] != 'idxset' else c
                    yield stmts + [kept, ('print', '|~ ~\\n', [V('t'), V('o')])]
def run_one(a):
    binary, idx, src = a
    p = '/root/scratch/x/drv/k%d.fml' % idx; open(p, 'w').write(src)
    r = subprocess.run([binary, 'run', p], capture_output=True, env={'RUST_BACKTRACE': '0'}); os.unlink(p)
    return r.returncode, r.stdout.decode()
def main():
    binary = sys.argv[1]; cases = []; st = {'ok': 0, 'fail': 0, 'unspec': 0}
    for prog in programs(int(sys.argv[2])):
        ref = reference(prog); st[ref[0]] += 1
        if ref[0] != 'unspec': cases.append((pr_program(prog), ref))
    print('programs', st, file=sys.stderr)
    bad = []
    with ThreadPoolExecutor(32) as ex:
        for (src, ref), (rc, out) in zip(cases, ex.map(run_one, [(binary, i, c[0]) for i, c in enumerate(cases)])):
            if not ((rc == 0) == (ref[0] == 'ok') and rc in (0, 101) and out == ref[1]): bad.append((src, ref[:2], rc, out))
    print('compared', len(cases), 'mismatches', len(bad))
    for b in bad[:8]: print('  SRC:', b[0].replace('\n', ' ')); print('  REF:', b[1], 'GOT', b[2], repr(b[3]))
main()
