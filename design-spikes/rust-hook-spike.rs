use std::io::Write;
use crate::fml::TopLevelParser;
use crate::bytecode::serializable::Serializable;
use crate::bytecode::program::Program;

struct Sink { got: Vec<u8>, calls: usize, limit: usize, short_at: Option<(usize, usize)> }
impl Write for Sink {
    fn write(&mut self, buf: &[u8]) -> std::io::Result<usize> {
        let call = self.calls; self.calls += 1;
        let mut n = buf.len().min(self.limit);
        if let Some((at, j)) = self.short_at { if at == call { n = n.min(j); } }
        self.got.extend_from_slice(&buf[..n]);
        Ok(n)
    }
    fn flush(&mut self) -> std::io::Result<()> { Ok(()) }
}

pub fn intercept() -> bool {
    let args: Vec<String> = std::env::args().collect();
    if args.get(1).map(|s| s.as_str()) != Some("__verif") { return false; }
    let parser = TopLevelParser::new();
    let src = "let x = 2; function f(a) -> a + x; print(\"héllo ~\\n\", f(1)); object begin let v = 1; function m() -> this.v end";
    let ast = parser.parse(src).unwrap();
    let program = crate::bytecode::compile(&ast).unwrap();
    let mut reference: Vec<u8> = Vec::new();
    program.serialize(&mut reference).unwrap();
    // idempotent re-serialization
    let loaded = Program::from_bytes(&mut std::io::Cursor::new(reference.clone()));
    let mut again: Vec<u8> = Vec::new(); loaded.serialize(&mut again).unwrap();
    println!("reserialize identical: {}", again == reference);
    // count write calls
    let mut probe = Sink { got: vec![], calls: 0, limit: usize::MAX, short_at: None };
    program.serialize(&mut probe).unwrap();
    let calls = probe.calls;
    let mut schedules = 0usize; let mut silent_loss = 0usize; let mut errors = 0usize;
    for k in 1..=12usize {
        let mut s = Sink { got: vec![], calls: 0, limit: k, short_at: None };
        let r = program.serialize(&mut s); schedules += 1;
        match r { Ok(()) => if s.got != reference { silent_loss += 1 }, Err(_) => errors += 1 }
    }
    for at in 0..calls { for j in 0..4usize {
        let mut s = Sink { got: vec![], calls: 0, limit: usize::MAX, short_at: Some((at, j)) };
        let r = program.serialize(&mut s); schedules += 1;
        match r { Ok(()) => if s.got != reference { silent_loss += 1 }, Err(_) => errors += 1 }
    } }
    println!("bytes={} write_calls={} schedules={} ok_but_bytes_lost={} errors={}", reference.len(), calls, schedules, silent_loss, errors);
    // NamedSink from a child module: private struct, private fields
    let mut named = crate::NamedSink { name: crate::Stream::Console, sink: Box::new(Sink { got: vec![], calls: 0, limit: 3, short_at: None }) };
    let r = crate::BCSerializer::BYTES.serialize(&program, &mut named);
    println!("NamedSink reachable from harness: serialize -> {:?}", r.is_ok());
    true
}
