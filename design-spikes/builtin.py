# Throw-away: U-BUILTIN prototype (C05): receiver kind x method name x argument kinds at bytecode level.
import sys, os, subprocess, itertools
from concurrent.futures import ThreadPoolExecutor
sys.path.insert(0, '/root/scratch/py')
from bc import *; from refsem import *
SYM = ['+','-','*','/','%','<','<=','>','>=','==','!=','&','|']
FEENY = {'add':'+','sub':'-','mul':'*','div':'/','mod':'%','lt':'<','le':'<=','gt':'>','ge':'>=','eq':'==','neq':'!=','and':'&','or':'|'}
NAMES = SYM + list(FEENY) + ['get', 'set', 'nosuch', '']
VALS = ['null', 'i-1', 'i0', 'i7', 'true', 'false', 'arr', 'obj']
RECV = VALS + ['ext:' + v for v in ['i7', 'true', 'arr', 'obj']]
class Pool:
    def __init__(self): self.c = []
    def add(self, c):
        if c in self.c: return self.c.index(c)
        self.c.append(c); return len(self.c) - 1
def emit_value(v, pool, code, r):
    """emit code pushing value v; return reference-model value"""
    if v == 'null': code.append(('lit', pool.add(('null',)))); return None
    if v.startswith('i'): n = int(v[1:]); code.append(('lit', pool.add(('int', n)))); return n
    if v in ('true', 'false'): code.append(('lit', pool.add(('bool', v == 'true')))); return v == 'true'
    if v == 'arr':
        code.append(('lit', pool.add(('int', 2)))); code.append(('lit', pool.add(('int', 5)))); code.append(('array',))
        return r.alloc({'kind': 'array', 'cells': [5, 5]})
    if v == 'obj':
        code.append(('lit', pool.add(('null',)))); code.append(('lit', pool.add(('int', 3))))
        nm = pool.add(('str', 'f')); sl = pool.add(('slot', nm)); cl = pool.add(('class', [sl]))
        code.append(('object', cl))
        return r.alloc({'kind': 'object', 'parent': None, 'fields': {'f': 3}, 'methods': {}})
    if v.startswith('ext:'):
        pv = emit_value(v[4:], pool, code, r)
        cl = pool.add(('class', []))
        code.append(('object', cl))
        return r.alloc({'kind': 'object', 'parent': pv, 'fields': {}, 'methods': {}})
def cases():
    for recv in RECV:
        for name in NAMES:
            for k in range(0, 3):
                for args in itertools.product(['null', 'i0', 'i1', 'true', 'arr', 'obj'], repeat=k):
                    yield recv, name, args
def build(case):
    recv, name, args = case
    pool = Pool(); code = []; r = R([])
    mainname = pool.add(('str', 'main'))
    rv = emit_value(recv, pool, code, r)
    avs = [emit_value(a if a != 'i1' else 'i1', pool, code, r) for a in args]
    code.append(('callslot', pool.add(('str', name)), len(args) + 1))
    code.append(('printf', pool.add(('str', '~')), 1)); code.append(('return',))
    try:
        res = r.send(rv, FEENY.get(name, name), avs)
        exp = ('ok', r.render(res, set()))
    except Fail: exp = ('fail', '')
    consts = list(pool.c) + [('method', mainname, 0, 0, code)]
    return program(consts, [], len(consts) - 1), exp
def run_one(a):
    binary, idx, b = a
    p = '/root/scratch/x/drv/b%d.bc' % idx
    open(p, 'wb').write(b)
    r = subprocess.run([binary, 'execute', p], capture_output=True, env={'RUST_BACKTRACE': '0'}); os.unlink(p)
    return r.returncode, r.stdout.decode()
def main():
    binary = sys.argv[1]
    cs = list(cases()); built = [build(c) for c in cs]
    print('cases', len(cs), 'expected ok', sum(1 for b in built if b[1][0] == 'ok'), file=sys.stderr)
    bad = []
    with ThreadPoolExecutor(32) as ex:
        for c, (b, exp), (rc, out) in zip(cs, built, ex.map(run_one, [(binary, i, b[0]) for i, b in enumerate(built)])):
            if not ((rc == 0) == (exp[0] == 'ok') and rc in (0, 101) and (exp[0] == 'fail' or out == exp[1])): bad.append((c, exp, rc, out))
    print('compared', len(cs), 'mismatches', len(bad))
    for b in bad[:15]: print('  ', b)
main()
