# Throw-away: C16 prototype — heap log vs reference allocation trace on the pair universe.
import sys, os, subprocess
from concurrent.futures import ThreadPoolExecutor
sys.path.insert(0, '/root/scratch/py')
import drive_lib
from refsem import *
def run_one(a):
    binary, idx, src = a
    base = '/root/scratch/x/drv/h%d' % idx
    open(base + '.fml', 'w').write(src)
    e = {'RUST_BACKTRACE': '0'}
    r0 = subprocess.run([binary, 'run', base + '.fml'], capture_output=True, env=e)
    r1 = subprocess.run([binary, 'run', base + '.fml', '--heap-log', base + '.csv', '--heap-size', '1'], capture_output=True, env=e)
    log = open(base + '.csv').read() if os.path.exists(base + '.csv') else None
    for x in ('.fml', '.csv'):
        if os.path.exists(base + x): os.unlink(base + x)
    return (r0.returncode, r0.stdout), (r1.returncode, r1.stdout), log
def main():
    binary = sys.argv[1]
    progs = []
    seen = set()
    for prog in drive_lib.programs(2):
        src = pr_program(prog)
        if src in seen: continue
        seen.add(src)
        ref = reference(prog)
        if ref[0] == 'unspec': continue
        progs.append((src, ref))
    progs = progs[::2]
    print('programs', len(progs), file=sys.stderr)
    bad = []; shape_inc = {}; nrec = 0
    with ThreadPoolExecutor(32) as ex:
        for (src, ref), (a, b, log) in zip(progs, ex.map(run_one, [(binary, i, p[0]) for i, p in enumerate(progs)])):
            if a != b: bad.append(('flags change behaviour', src)); continue
            if log is None: bad.append(('no log', src)); continue
            lines = log.split('\n')
            if lines[0] != 'timestamp,event,heap' or lines[-1] != '': bad.append(('header', src)); continue
            recs = [l.split(',') for l in lines[1:-1]]
            if not recs or recs[0][1:] != ['S', '0'] or any(len(r) != 3 or not r[0].isdigit() or not r[2].isdigit() for r in recs): bad.append(('record format', src)); continue
            A = recs[1:]
            if any(r[1] != 'A' for r in A): bad.append(('event kind', src)); continue
            allocs = ref[2]
            if len(A) != len(allocs): bad.append(('count %d vs ref %d' % (len(A), len(allocs)), src)); continue
            sizes = [0] + [int(r[2]) for r in A]
            incs = [sizes[i+1] - sizes[i] for i in range(len(A))]
            if any(i <= 0 for i in incs): bad.append(('not increasing', src)); continue
            nrec += len(A)
            for sh, inc in zip(allocs, incs):
                shape_inc.setdefault(sh, set()).add(inc)
    print('compared', len(progs), 'A-records', nrec, 'problems', len(bad))
    kinds = {}
    for k, s in bad: kinds.setdefault(k, []).append(s)
    for k, v in kinds.items(): print('====', len(v), k, '\n    e.g.', ' ; '.join(v[0].split(';\n')[7:])[:250])
    amb = {k: v for k, v in shape_inc.items() if len(v) > 1}
    print('shapes', len(shape_inc), 'non-functional shapes', len(amb))
    for k, v in list(amb.items())[:8]: print('   ', k, sorted(v))
main()
