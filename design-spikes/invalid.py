import sys, os, subprocess, re
from concurrent.futures import ThreadPoolExecutor
sys.path.insert(0, '/root/scratch/py')
import drive_lib
TOK = re.compile(r'\s+|"(?:[^\\"]|\\.)*"|-?[0-9]+|[_A-Za-z][_A-Za-z0-9]*|<-|->|==|!=|<=|>=|.', re.S)
def tokens(src): return [t for t in TOK.findall(src) if not t.isspace()]
CLOSERS = {'end', ')', ']'}
def mutants(toks):
    for i, t in enumerate(toks):
        if t in CLOSERS: yield 'delete closer', toks[:i] + toks[i+1:]
    for i in range(len(toks) + 1):
        for c in (')', 'end', ']'): yield 'stray ' + c, toks[:i] + [c] + toks[i:]
        for c in ('$', '#', '@', '"abc', '99999999999', '+ *'): yield 'illegal ' + c, toks[:i] + [c] + toks[i:]
def run(a):
    binary, idx, text = a
    p = '/root/scratch/x/drv/i%d.fml' % idx; open(p, 'w').write(text)
    r = subprocess.run([binary, 'run', p], capture_output=True, env={'RUST_BACKTRACE': '0'}); os.unlink(p)
    return r.returncode, len(r.stdout), len(r.stderr)
def main():
    binary = sys.argv[1]; n = int(sys.argv[2])
    srcs = list(drive_lib.sources(2)); srcs = srcs[::len(srcs) // n][:n]
    jobs = []; meta = []
    for s in srcs:
        for desc, m in mutants(tokens(s)): jobs.append(' '.join(m)); meta.append(desc)
    print('invalid sources', len(jobs), file=sys.stderr)
    bad = {}
    with ThreadPoolExecutor(32) as ex:
        for d, text, (rc, no, ne) in zip(meta, jobs, ex.map(run, [(binary, i, j) for i, j in enumerate(jobs)])):
            if not (rc == 101 and no == 0 and ne > 0): bad.setdefault((d, rc, no > 0, ne > 0), []).append(text)
    print('checked', len(jobs), 'not cleanly rejected', {k: len(v) for k, v in bad.items()})
    for k, v in list(bad.items())[:6]: print('  ', k, v[0][-160:])
main()
