import sys, os, subprocess
from concurrent.futures import ThreadPoolExecutor
sys.path.insert(0, '/root/scratch/py')
from bcread import *; from bc import program as bcwrite_program
import drive_lib
def compile_one(args):
    binary, idx, src = args
    base = '/root/scratch/x/drv/c%d' % idx
    open(base + '.fml', 'w').write(src)
    e = {'RUST_BACKTRACE': '0'}
    r1 = subprocess.run([binary, 'parse', base + '.fml', '--format', 'json', '-o', base + '.json'], capture_output=True, env=e)
    if r1.returncode != 0: os.unlink(base + '.fml'); return ('parse-fail', r1.stderr[-200:])
    r2 = subprocess.run([binary, 'compile', base + '.json', '-o', base + '.bc'], capture_output=True, env=e)
    if r2.returncode != 0:
        for x in ('.fml', '.json'): os.unlink(base + x)
        return ('compile-fail', r2.stderr[-200:])
    b = open(base + '.bc', 'rb').read()
    for x in ('.fml', '.json', '.bc'): os.unlink(base + x)
    return ('ok', b)
def main():
    binary = sys.argv[1]
    srcs = list(drive_lib.sources(2))
    print('programs', len(srcs), file=sys.stderr)
    nviol = 0; nok = 0; nfail = 0; kinds = {}; rt_bad = 0
    with ThreadPoolExecutor(32) as ex:
        for src, res in zip(srcs, ex.map(compile_one, [(binary, i, s) for i, s in enumerate(srcs)])):
            if res[0] != 'ok': nfail += 1; continue
            nok += 1
            try: consts, globs, entry = read_program(res[1])
            except Exception as ex_: kinds.setdefault('decode: %s' % ex_, []).append(src); continue
            # independent writer must reproduce the bytes (C04, writer direction)
            def tow(c):
                if c[0] == 'method': return ('method', c[1], c[2], c[3], c[4])
                return c
            if bcwrite_program([tow(c) for c in consts], globs, entry) != res[1]: rt_bad += 1
            for v in validate(consts, globs, entry):
                import re
                k = re.sub(r'\d+', 'N', v)
                kinds.setdefault(k, []).append(src)
    print('compiled', nok, 'rejected', nfail, 'rewrite-mismatch', rt_bad)
    for k, v in sorted(kinds.items(), key=lambda kv: -len(kv[1])):
        print('====', len(v), k); print('    e.g.', ' ; '.join(v[0].split(';\n')[7:])[:300])
main()
