# Throw-away prototype of reference semantics R (README rules) for FML. Not framework code.
import sys
sys.setrecursionlimit(10000)

class Fail(Exception): pass
class Unspec(Exception): pass

MIN, MAX = -2**31, 2**31 - 1
def wrap(n):
    n &= 0xFFFFFFFF
    return n - 2**32 if n >= 2**31 else n

ACCESSIBLE = {'int', 'bool', 'null', 'var', 'block', 'call', 'array', 'idx', 'mcall'}

# ---------------------------------------------------------------- printer
def is_open_if(e):
    k = e[0]
    if k == 'if': return e[3] is None or is_open_if(e[3])
    if k in ('let', 'set'): return is_open_if(e[2])
    if k == 'while': return is_open_if(e[2])
    if k == 'fset': return is_open_if(e[3])
    if k == 'idxset': return is_open_if(e[3])
    return False

def p_operand(e):
    if e[0] in ACCESSIBLE or e[0] == 'fget': return pr(e)
    return '(' + pr(e) + ')'

def p_recv(e):
    if e[0] in ACCESSIBLE or e[0] == 'fget': return pr(e)
    return '(' + pr(e) + ')'

def pr(e):
    k = e[0]
    if k == 'int': return str(e[1])
    if k == 'bool': return 'true' if e[1] else 'false'
    if k == 'null': return 'null'
    if k == 'var': return e[1]
    if k == 'let': return 'let %s = %s' % (e[1], pr(e[2]))
    if k == 'set': return '%s <- %s' % (e[1], pr(e[2]))
    if k == 'block': return 'begin ' + '; '.join(pr(x) for x in e[1]) + ' end'
    if k == 'if':
        t = pr(e[2])
        if e[3] is not None:
            if is_open_if(e[2]): t = '(' + t + ')'
            return 'if %s then %s else %s' % (pr(e[1]), t, pr(e[3]))
        return 'if %s then %s' % (pr(e[1]), t)
    if k == 'while': return 'while %s do %s' % (pr(e[1]), pr(e[2]))
    if k == 'call': return '%s(%s)' % (e[1], ', '.join(pr(a) for a in e[2]))
    if k == 'array': return 'array(%s, %s)' % (pr(e[1]), pr(e[2]))
    if k == 'idx': return '%s[%s]' % (p_recv(e[1]), pr(e[2]))
    if k == 'idxset': return '%s[%s] <- %s' % (p_recv(e[1]), pr(e[2]), pr(e[3]))
    if k == 'object':
        ms = []
        for m in e[2]:
            if m[0] == 'field': ms.append('let %s = %s' % (m[1], pr(m[2])))
            else: ms.append('function %s(%s) -> %s' % (m[1], ', '.join(m[2]), pr(m[3])))
        ext = '' if e[1] is None else 'extends %s ' % p_operand(e[1])
        return 'object %sbegin %s end' % (ext, '; '.join(ms))
    if k == 'fget': return '%s.%s' % (p_recv(e[1]), e[2])
    if k == 'fset': return '%s.%s <- %s' % (p_recv(e[1]), e[2], pr(e[3]))
    if k == 'mcall': return '%s.%s(%s)' % (p_recv(e[1]), e[2], ', '.join(pr(a) for a in e[3]))
    if k == 'binop': return '%s %s %s' % (p_operand(e[2]), e[1], p_operand(e[3]))
    if k == 'print': return 'print("%s"%s)' % (e[1], ''.join(', ' + pr(a) for a in e[2]))
    if k == 'fun': return 'function %s(%s) -> %s' % (e[1], ', '.join(e[2]), pr(e[3]))
    raise Exception('pr? %r' % (e,))

def pr_program(stmts): return ';\n'.join(pr(s) for s in stmts)

# ---------------------------------------------------------------- static helpers
def lets_in(e, acc):
    """names declared by `let` anywhere in e, not descending into method bodies / functions"""
    k = e[0]
    if k == 'let': acc.add(e[1]); lets_in(e[2], acc)
    elif k == 'set': lets_in(e[2], acc)
    elif k == 'block':
        for x in e[1]: lets_in(x, acc)
    elif k == 'if':
        lets_in(e[1], acc); lets_in(e[2], acc)
        if e[3] is not None: lets_in(e[3], acc)
    elif k == 'while': lets_in(e[1], acc); lets_in(e[2], acc)
    elif k == 'call':
        for a in e[2]: lets_in(a, acc)
    elif k == 'array': lets_in(e[1], acc); lets_in(e[2], acc)
    elif k == 'idx': lets_in(e[1], acc); lets_in(e[2], acc)
    elif k == 'idxset': lets_in(e[1], acc); lets_in(e[2], acc); lets_in(e[3], acc)
    elif k == 'object':
        if e[1] is not None: lets_in(e[1], acc)
        for m in e[2]:
            if m[0] == 'field': lets_in(m[2], acc)
    elif k == 'fget': lets_in(e[1], acc)
    elif k == 'fset': lets_in(e[1], acc); lets_in(e[3], acc)
    elif k == 'mcall':
        lets_in(e[1], acc)
        for a in e[3]: lets_in(a, acc)
    elif k == 'binop': lets_in(e[2], acc); lets_in(e[3], acc)
    elif k == 'print':
        for a in e[2]: lets_in(a, acc)
    return acc

def is_pure_path(e):
    return e[0] in ('int', 'bool', 'null', 'var') or (e[0] == 'fget' and is_pure_path(e[1]))

# ---------------------------------------------------------------- interpreter
class Frame:
    def __init__(self, scopes, body_lets, is_top, statics=None):
        self.statics = statics if statics is not None else [{}]   # parallel to scopes: name -> textual position of its let
        self.scopes = scopes          # list of dicts name -> [value, let_node_id]
        self.body_lets = body_lets    # names let-declared anywhere in this body
        self.is_top = is_top

class R:
    def __init__(self, stmts, fuel=20000):
        self.out = []
        self.heap = []
        self.allocs = []
        self.fuel = fuel
        self.funs = {}
        self.globals = {}
        self.top_lets = set()
        ctr = _it2.count(1)
        stmts = [annotate(x, ctr) for x in stmts]
        body = []
        for s in stmts:
            if s[0] == 'fun':
                if s[1] in self.funs: raise Unspec('dup function')
                if len(set(s[2])) != len(s[2]): raise Unspec('dup params')
                self.funs[s[1]] = s
            else:
                body.append(s); lets_in(s, self.top_lets)
        self.body = body
        self.top_static = {}
        for b in body: direct_lets(b, self.top_static)

    def run(self):
        fr = Frame([self.globals], self.top_lets, True, [self.top_static])
        for s in self.body: self.ev(s, fr)

    def tick(self):
        self.fuel -= 1
        if self.fuel < 0: raise Unspec('fuel')

    # variable lookup
    def lookup(self, name, fr, pos=None):
        """static (textual) resolution; the statically visible let must have executed, else Unspec"""
        n = len(fr.scopes)
        for i in range(n - 1, -1, -1):
            sc = fr.scopes[i]; st = fr.statics[i]
            is_global_scope = fr.is_top and i == 0
            if name in st and (pos is None or st[name] < pos):
                if name in sc: return sc
                raise Unspec('statically visible let has not executed: ' + name)
            if name in sc and name not in st: return sc      # parameters / this
            if is_global_scope and name in st: raise Unspec('use before global let: ' + name)
        if not fr.is_top:
            if name in self.top_static:
                if name in self.globals: return self.globals
                raise Unspec('global let has not executed: ' + name)
        return None

    def unbound(self, name, fr):
        if name in fr.body_lets or name in self.top_lets: raise Unspec('non-dominated use of ' + name)
        raise Fail('unknown variable ' + name)

    def alloc(self, obj):
        self.heap.append(obj)
        if len(self.heap) > 5000: raise Unspec('heap')
        if obj['kind'] == 'array': self.allocs.append(('A', len(obj['cells'])))
        else: self.allocs.append(('O', tuple(len(n) for n in obj['fields']), tuple(len(n) for n in obj['methods'])))
        return ('ref', len(self.heap) - 1)

    def ev(self, e, fr):
        self.tick()
        k = e[0]
        if k == 'int': return e[1]
        if k == 'bool': return e[1]
        if k == 'null': return None
        if k == 'var':
            sc = self.lookup(e[1], fr, e[2])
            if sc is None: self.unbound(e[1], fr)
            return sc[e[1]][0]
        if k == 'let':
            v = self.ev(e[2], fr)
            sc = fr.scopes[-1]
            lid = e[3]
            if e[1] in sc and sc[e[1]][1] != lid: raise Unspec('redeclaration')
            sc[e[1]] = [v, lid]
            return v
        if k == 'set':
            # implementation resolves the target before evaluating the value; same thing under dominance
            before = self.lookup(e[1], fr, e[3])
            v = self.ev(e[2], fr)
            sc = self.lookup(e[1], fr, e[3])
            if sc is not before: raise Unspec('assignment target changes while its value is evaluated')
            if sc is None: self.unbound(e[1], fr)
            sc[e[1]][0] = v
            return v
        if k == 'block':
            st = {}
            for x in e[1]: direct_lets(x, st)
            fr.scopes.append({}); fr.statics.append(st)
            try:
                v = None
                for x in e[1]: v = self.ev(x, fr)
                return v
            finally:
                fr.scopes.pop(); fr.statics.pop()
        if k == 'if':
            c = self.ev(e[1], fr)
            if not isinstance(c, bool): raise Unspec('non-boolean condition')
            if c: return self.ev(e[2], fr)
            if e[3] is None: return None
            return self.ev(e[3], fr)
        if k == 'while':
            while True:
                c = self.ev(e[1], fr)
                if not isinstance(c, bool): raise Unspec('non-boolean condition')
                if not c: return None
                self.ev(e[2], fr)
        if k == 'call':
            args = [self.ev(a, fr) for a in e[2]]
            f = self.funs.get(e[1])
            if f is None: raise Fail('unknown function')
            if len(f[2]) != len(args): raise Fail('arity')
            return self.invoke(f[2], f[3], args)
        if k == 'array':
            n = self.ev(e[1], fr)
            init = e[2]
            if is_pure_path(init):
                if isinstance(n, bool) or not isinstance(n, int) or n < 0:
                    # size fault; initializer evaluation order vs fault unobservable for pure paths unless it fails too
                    try: self.ev(init, fr)
                    except Fail: raise Unspec('two faults')
                    raise Fail('bad array size')
                if n == 0:
                    try: self.ev(init, fr)
                    except Fail: raise Unspec('U6')
                    return self.alloc({'kind': 'array', 'cells': []})
                v = self.ev(init, fr)
                if n > 64: raise Unspec('big array')
                return self.alloc({'kind': 'array', 'cells': [v] * n})
            if isinstance(n, bool) or not isinstance(n, int) or n < 0: raise Fail('bad array size')
            if n > 64: raise Unspec('big array')
            r = self.alloc({'kind': 'array', 'cells': [None] * n})
            cells = self.heap[r[1]]['cells']
            st = direct_lets(init, {})
            for i in range(n):
                fr.scopes.append({}); fr.statics.append(st)
                try: cells[i] = self.ev(init, fr)
                finally: fr.scopes.pop(); fr.statics.pop()
            return r
        if k == 'idx':
            a = self.ev(e[1], fr); i = self.ev(e[2], fr)
            return self.send(a, 'get', [i])
        if k == 'idxset':
            a = self.ev(e[1], fr); i = self.ev(e[2], fr); v = self.ev(e[3], fr)
            return self.send(a, 'set', [i, v])
        if k == 'object':
            parent = None if e[1] is None else self.ev(e[1], fr)
            fields = {}; methods = {}
            dup = False
            for m in e[2]:
                if m[0] == 'field':
                    v = self.ev(m[2], fr)
                    if m[1] in fields: dup = True
                    fields[m[1]] = v
                else:
                    if m[1] in methods: dup = True
                    if len(set(m[2])) != len(m[2]) or 'this' in m[2]: raise Unspec('params')
                    methods[m[1]] = m
            if dup: raise Unspec('duplicate member')
            return self.alloc({'kind': 'object', 'parent': parent, 'fields': fields, 'methods': methods})
        if k == 'fget':
            o = self.ev(e[1], fr)
            ob = self.as_object(o)
            if e[2] not in ob['fields']: raise Fail('unknown field')
            return ob['fields'][e[2]]
        if k == 'fset':
            o = self.ev(e[1], fr); v = self.ev(e[3], fr)
            ob = self.as_object(o)
            if e[2] not in ob['fields']: raise Fail('unknown field')
            ob['fields'][e[2]] = v
            return v
        if k == 'mcall':
            o = self.ev(e[1], fr)
            args = [self.ev(a, fr) for a in e[3]]
            return self.send(o, e[2], args)
        if k == 'binop':
            l = self.ev(e[2], fr); r = self.ev(e[3], fr)
            return self.send(l, e[1], [r])
        if k == 'print':
            args = [self.ev(a, fr) for a in e[2]]
            self.out.append(self.fmt(e[1], args))
            if sum(len(x) for x in self.out) > 20000: raise Unspec('output')
            return None
        raise Exception('ev? %r' % (e,))

    def as_object(self, v):
        if isinstance(v, tuple) and self.heap[v[1]]['kind'] == 'object': return self.heap[v[1]]
        raise Fail('not an object')

    def invoke(self, params, body, args):
        self.depth = getattr(self, 'depth', 0) + 1
        if self.depth > 200: raise Unspec('depth')
        try:
            fr = Frame([{p: [a, None] for p, a in zip(params, args)}], lets_in(body, set()), False, [direct_lets(body, {})])
            return self.ev(body, fr)
        finally:
            self.depth -= 1

    def send(self, recv, name, args):
        self.tick()
        if recv is None:
            return self.null_builtin(name, args)
        if isinstance(recv, bool): return self.bool_builtin(recv, name, args)
        if isinstance(recv, int): return self.int_builtin(recv, name, args)
        ob = self.heap[recv[1]]
        if ob['kind'] == 'array': return self.array_builtin(ob, name, args)
        m = ob['methods'].get(name)
        if m is not None:
            if len(m[2]) != len(args): raise Fail('method arity')
            return self.invoke(['this'] + list(m[2]), m[3], [recv] + args)
        if ob['parent'] is None: raise Fail('no method')
        return self.send(ob['parent'], name, args)

    def null_builtin(self, name, args):
        if len(args) != 1: raise Fail('arity')
        if name == '==': return args[0] is None
        if name == '!=': return args[0] is not None
        raise Fail('no method on null')

    def bool_builtin(self, b, name, args):
        if len(args) != 1: raise Fail('arity')
        a = args[0]
        if name in ('&', '|'):
            if not isinstance(a, bool): raise Fail('kind')
            return (b and a) if name == '&' else (b or a)
        if name == '==': return isinstance(a, bool) and a == b
        if name == '!=': return not (isinstance(a, bool) and a == b)
        raise Fail('no method on bool')

    def int_builtin(self, n, name, args):
        if len(args) != 1: raise Fail('arity')
        a = args[0]
        isint = isinstance(a, int) and not isinstance(a, bool)
        if name == '==': return isint and a == n
        if name == '!=': return not (isint and a == n)
        if name in ('+', '-', '*', '/', '%', '<', '<=', '>', '>='):
            if not isint: raise Fail('kind')
            if name == '+': return wrap(n + a)
            if name == '-': return wrap(n - a)
            if name == '*': return wrap(n * a)
            if name == '/':
                if a == 0 or (n == MIN and a == -1): raise Fail('div')
                q = abs(n) // abs(a)
                return q if (n < 0) == (a < 0) else -q
            if name == '%':
                if a == 0: raise Fail('mod')
                r = abs(n) % abs(a)
                return r if n >= 0 else -r
            if name == '<': return n < a
            if name == '<=': return n <= a
            if name == '>': return n > a
            if name == '>=': return n >= a
        raise Fail('no method on int')

    def array_builtin(self, ob, name, args):
        cells = ob['cells']
        if name == 'get':
            if len(args) != 1: raise Fail('arity')
            i = args[0]
            if isinstance(i, bool) or not isinstance(i, int) or i < 0 or i >= len(cells): raise Fail('index')
            return cells[i]
        if name == 'set':
            if len(args) != 2: raise Fail('arity')
            i = args[0]
            if isinstance(i, bool) or not isinstance(i, int) or i < 0 or i >= len(cells): raise Fail('index')
            cells[i] = args[1]
            return args[1]   # U3: only used in statement position by the generators that matter
        raise Fail('no method on array')

    def fmt(self, f, args):
        out = []; i = 0; k = 0
        while i < len(f):
            c = f[i]
            if c == '\\':
                if i + 1 >= len(f): raise Unspec('trailing backslash')
                d = f[i + 1]; i += 2
                m = {'n': '\n', 't': '\t', 'r': '\r', '\\': '\\', '"': '"', '~': '~'}
                if d not in m: raise Unspec('U7')
                out.append(m[d]); continue
            if c == '~':
                if k >= len(args): raise Fail('too few arguments')
                out.append(self.render(args[k], set())); k += 1; i += 1; continue
            out.append(c); i += 1
        if k != len(args): raise Fail('too many arguments')
        return ''.join(out)

    def render(self, v, path):
        if v is None: return 'null'
        if isinstance(v, bool): return 'true' if v else 'false'
        if isinstance(v, int): return str(v)
        if v[1] in path: raise Unspec('cyclic print')
        path = path | {v[1]}
        ob = self.heap[v[1]]
        if ob['kind'] == 'array': return '[' + ', '.join(self.render(c, path) for c in ob['cells']) + ']'
        parts = []
        if ob['parent'] is not None: parts.append('..=' + self.render(ob['parent'], path))
        for n in sorted(ob['fields']): parts.append('%s=%s' % (n, self.render(ob['fields'][n], path)))
        return 'object(' + ', '.join(parts) + ')'

def scope_lets(e, acc):
    """collect (name) of lets that bind in the scope e is evaluated in; recurse into nested scopes separately"""
    k = e[0]
    def sub(x): scope_lets(x, acc)
    def newscope(xs, pre=()):
        inner = list(pre)
        for x in xs: scope_lets(x, inner)
        if len(set(inner)) != len(inner): raise Unspec('static redeclaration')
    if k == 'let': sub(e[2]); acc.append(e[1])
    elif k == 'set': sub(e[2])
    elif k == 'block': newscope(e[1])
    elif k == 'if':
        sub(e[1]); sub(e[2])
        if e[3] is not None: sub(e[3])
    elif k == 'while': sub(e[1]); sub(e[2])
    elif k == 'call':
        for a in e[2]: sub(a)
    elif k == 'array':
        sub(e[1])
        if is_pure_path(e[2]): sub(e[2])
        else: newscope([e[2]])
    elif k == 'idx': sub(e[1]); sub(e[2])
    elif k == 'idxset': sub(e[1]); sub(e[2]); sub(e[3])
    elif k == 'object':
        if e[1] is not None: sub(e[1])
        for m in e[2]:
            if m[0] == 'field': sub(m[2])
            else: newscope([m[3]], pre=['this'] + list(m[2]))
    elif k == 'fget': sub(e[1])
    elif k == 'fset': sub(e[1]); sub(e[3])
    elif k == 'mcall':
        sub(e[1])
        for a in e[3]: sub(a)
    elif k == 'binop': sub(e[2]); sub(e[3])
    elif k == 'print':
        for a in e[2]: sub(a)
    elif k == 'fun':
        inner = list(e[2]); scope_lets(e[3], inner)
        if len(set(inner)) != len(inner): raise Unspec('static redeclaration')

import itertools as _it2
def annotate(e, ctr):
    """rebuild tree in textual order; var/set get position at the name, let gets position after its value"""
    k = e[0]
    A = lambda x: annotate(x, ctr)
    if k in ('int', 'bool', 'null'): return e
    if k == 'var': return ('var', e[1], next(ctr))
    if k == 'let':
        v = A(e[2]); return ('let', e[1], v, ('L', next(ctr)))
    if k == 'set':
        p = next(ctr); return ('set', e[1], A(e[2]), p)
    if k == 'block': return ('block', [A(x) for x in e[1]])
    if k == 'if':
        c = A(e[1]); t = A(e[2]); f = None if e[3] is None else A(e[3]); return ('if', c, t, f)
    if k == 'while': c = A(e[1]); b = A(e[2]); return ('while', c, b)
    if k == 'call': return ('call', e[1], [A(a) for a in e[2]])
    if k == 'array': n = A(e[1]); v = A(e[2]); return ('array', n, v)
    if k == 'idx': a = A(e[1]); i = A(e[2]); return ('idx', a, i)
    if k == 'idxset': a = A(e[1]); i = A(e[2]); v = A(e[3]); return ('idxset', a, i, v)
    if k == 'object':
        par = None if e[1] is None else A(e[1])
        ms = []
        for m in e[2]:
            if m[0] == 'field': ms.append(('field', m[1], A(m[2])))
            else: ms.append(('method', m[1], m[2], annotate(m[3], ctr)))
        return ('object', par, ms)
    if k == 'fget': return ('fget', A(e[1]), e[2])
    if k == 'fset': o = A(e[1]); v = A(e[3]); return ('fset', o, e[2], v)
    if k == 'mcall': o = A(e[1]); return ('mcall', o, e[2], [A(a) for a in e[3]])
    if k == 'binop': l = A(e[2]); r = A(e[3]); return ('binop', e[1], l, r)
    if k == 'print': return ('print', e[1], [A(a) for a in e[2]])
    if k == 'fun': return ('fun', e[1], e[2], annotate(e[3], ctr))
    raise Exception('annotate? %r' % (e,))

def direct_lets(e, acc):
    """(name -> position) of lets binding in the scope e is evaluated in (not nested scopes)"""
    k = e[0]
    D = lambda x: direct_lets(x, acc)
    if k == 'let': D(e[2]); acc[e[1]] = e[3][1]
    elif k == 'set': D(e[2])
    elif k == 'if':
        D(e[1]); D(e[2])
        if e[3] is not None: D(e[3])
    elif k == 'while': D(e[1]); D(e[2])
    elif k == 'call':
        for a in e[2]: D(a)
    elif k == 'array':
        D(e[1])
        if is_pure_path(e[2]): D(e[2])
    elif k == 'idx': D(e[1]); D(e[2])
    elif k == 'idxset': D(e[1]); D(e[2]); D(e[3])
    elif k == 'object':
        if e[1] is not None: D(e[1])
        for m in e[2]:
            if m[0] == 'field': D(m[2])
    elif k == 'fget': D(e[1])
    elif k == 'fset': D(e[1]); D(e[3])
    elif k == 'mcall':
        D(e[1])
        for a in e[3]: D(a)
    elif k == 'binop': D(e[2]); D(e[3])
    elif k == 'print':
        for a in e[2]: D(a)
    return acc

def static_check(stmts):
    top = []
    for st in stmts: scope_lets(st, top)
    if len(set(top)) != len(top): raise Unspec('static redeclaration')

def reference(stmts):
    """returns (status, output) with status in ok/fail/unspec"""
    r = None
    try:
        static_check(stmts)
        r = R(stmts)
        r.run()
        return ('ok', ''.join(r.out), r.allocs)
    except Fail as f:
        return ('fail', ''.join(r.out), r.allocs)
    except Unspec as u:
        return ('unspec', str(u), None)
    except RecursionError:
        return ('unspec', 'recursion', None)
