import struct
# minimal independent writer of the documented layout
def u8(x): return struct.pack('<B',x)
def u16(x): return struct.pack('<H',x)
def u32(x): return struct.pack('<I',x)
def i32(x): return struct.pack('<i',x)
OPS={'label':0,'lit':1,'printf':2,'array':3,'object':4,'getslot':5,'setslot':6,'callslot':7,'call':8,'setlocal':9,'getlocal':10,'setglobal':11,'getglobal':12,'branch':13,'goto':14,'return':15,'drop':16}
def ins(op,*a):
    b=u8(OPS[op])
    if op in('label','lit','object','getslot','setslot','setlocal','getlocal','setglobal','getglobal','branch','goto'): b+=u16(a[0])
    elif op in('printf','callslot','call'): b+=u16(a[0])+u8(a[1])
    return b
def const(c):
    k=c[0]
    if k=='int': return u8(0)+i32(c[1])
    if k=='null': return u8(1)
    if k=='str':
        s=c[1].encode() if isinstance(c[1],str) else c[1]
        return u8(2)+u32(len(s))+s
    if k=='method':
        _,name,nargs,nlocals,code=c
        return u8(3)+u16(name)+u8(nargs)+u16(nlocals)+u32(len(code))+b''.join(ins(*i) for i in code)
    if k=='slot': return u8(4)+u16(c[1])
    if k=='class': return u8(5)+u16(len(c[1]))+b''.join(u16(x) for x in c[1])
    if k=='bool': return u8(6)+u8(1 if c[1] else 0)
def program(consts,globals_,entry):
    return u16(len(consts))+b''.join(const(c) for c in consts)+u16(len(globals_))+b''.join(u16(g) for g in globals_)+u16(entry)
