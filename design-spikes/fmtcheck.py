import sys, os, subprocess, itertools
from concurrent.futures import ThreadPoolExecutor
sys.path.insert(0, '/root/scratch/py')
from bc import *; from refsem import *
ALPHA = ['~', '\\', 'n', '"', 'a', '\n', 'é']
def cases(L):
    for l in range(0, L + 1):
        for t in itertools.product(ALPHA, repeat=l):
            s = ''.join(t)
            for k in range(0, 4): yield s, k
def build(s, k):
    consts = [('str', 'main'), ('str', s)] + [('int', 10 + i) for i in range(k)]
    code = [('lit', 2 + i) for i in range(k)] + [('printf', 1, k), ('return',)]
    consts.append(('method', 0, 0, 0, code))
    r = R([])
    try: exp = ('ok', r.fmt(s, [10 + i for i in range(k)]))
    except Fail: exp = ('fail', '')
    except Unspec as u: exp = ('unspec', str(u))
    return program(consts, [], len(consts) - 1), exp
def run_one(a):
    binary, idx, b = a
    p = '/root/scratch/x/drv/f%d.bc' % idx; open(p, 'wb').write(b)
    r = subprocess.run([binary, 'execute', p], capture_output=True, env={'RUST_BACKTRACE': '0'}); os.unlink(p)
    return r.returncode, r.stdout.decode()
def main():
    binary = sys.argv[1]; L = int(sys.argv[2])
    cs = list(cases(L)); built = [build(*c) for c in cs]
    todo = [(c, b) for c, b in zip(cs, built) if b[1][0] != 'unspec']
    print('cases', len(cs), 'specified', len(todo), 'ok', sum(1 for c, b in todo if b[1][0] == 'ok'), file=sys.stderr)
    bad = []
    with ThreadPoolExecutor(32) as ex:
        for (c, (b, exp)), (rc, out) in zip(todo, ex.map(run_one, [(binary, i, t[1][0]) for i, t in enumerate(todo)])):
            if not ((rc == 0) == (exp[0] == 'ok') and rc in (0, 101) and out == exp[1]): bad.append((c, exp, rc, out))
    print('compared', len(todo), 'mismatches', len(bad))
    for b in bad[:10]: print('  ', b)
main()
