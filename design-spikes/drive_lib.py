# Throw-away differential driver: construct-pair universe vs real binary.
import sys, os, subprocess, itertools, json, hashlib
from concurrent.futures import ThreadPoolExecutor
sys.path.insert(0, '/root/scratch/py')
from refsem import *

I = lambda k: ('int', k); V = lambda n: ('var', n); B = lambda b: ('bool', b); N = ('null',)
def tr(tag, v): return ('block', [('print', tag, []), v])

PRELUDE = [
    ('let', 'gx', I(1)), ('let', 'gy', I(2)), ('let', 'ga', ('array', I(3), I(0))),
    ('let', 'go', ('object', None, [('field', 'v', I(10)),
        ('method', 'm', ['k'], ('binop', '+', ('fget', V('this'), 'v'), V('k'))),
        ('method', '+', ['k'], ('binop', '*', ('fget', V('this'), 'v'), V('k'))),
        ('method', 'get', ['i'], ('binop', '+', V('i'), I(100))),
        ('method', 'set', ['i', 'w'], ('fset', V('this'), 'v', V('w')))])),
    ('let', 'gc', ('object', V('go'), [('field', 'w', I(5))])),
    ('fun', 'f', ['p'], ('binop', '+', V('p'), I(1))),
    ('fun', 'g', ['p', 'q'], ('block', [('print', 'g', []), V('p')])),
]
EPILOGUE = [('print', '|~ ~ ~ ~ ~\\n', [V('gx'), V('gy'), V('ga'), V('go'), V('gc')])]

H = ('HOLE',)
TEMPLATES = [
    H, ('let', 'z', H), ('set', 'gx', H), ('block', [H, I(5)]), ('block', [I(5), H]), ('block', [H]),
    ('if', H, I(1), I(2)), ('if', B(True), H, I(2)), ('if', B(False), I(1), H), ('if', B(True), H, None), ('if', B(False), H, None),
    ('while', B(False), H), ('while', ('binop', '<', V('gy'), I(4)), ('block', [('set', 'gy', ('binop', '+', V('gy'), I(1))), H])),
    ('call', 'f', [H]), ('call', 'g', [H, I(7)]), ('call', 'g', [I(7), H]),
    ('array', H, I(0)), ('array', I(2), H), ('array', H, tr('i', I(1))), ('array', I(0), H),
    ('idx', V('ga'), H), ('idx', H, I(0)), ('idxset', V('ga'), H, I(5)), ('idxset', V('ga'), I(1), H), ('idxset', H, I(1), I(5)),
    ('object', H, []), ('object', None, [('field', 'a', H)]), ('object', H, [('field', 'a', I(1)), ('field', 'b', H)]),
    ('object', None, [('field', 'a', I(1)), ('method', 'q', [], H)]),
    ('fget', H, 'v'), ('fset', V('go'), 'v', H), ('fset', H, 'v', I(3)),
    ('mcall', H, 'm', [I(1)]), ('mcall', V('go'), 'm', [H]), ('mcall', V('gc'), 'm', [H]), ('mcall', H, 'get', [I(1)]),
    ('binop', '+', H, I(1)), ('binop', '+', I(1), H), ('binop', '==', H, I(1)), ('binop', '==', N, H), ('binop', '&', H, B(True)), ('binop', '|', B(False), H),
    ('binop', '<', H, I(3)), ('binop', '-', I(3), H), ('binop', '/', I(7), H), ('binop', '%', H, I(3)),
    ('print', '~', [H]), ('print', '~ ~', [I(1), H]), ('print', '~ ~', [H, tr('t', I(2))]),
]
FILLERS = [
    I(0), I(2), I(-1), B(True), B(False), N, V('gx'), V('ga'), V('go'), V('gc'),
    ('let', 'w', I(3)), ('set', 'gx', I(4)), tr('s', I(2)), tr('b', B(True)), ('block', [('let', 'gx', I(8)), V('gx')]),
    ('if', B(True), I(1), I(0)), ('if', B(False), I(1), None), ('while', B(False), I(1)),
    ('call', 'f', [I(1)]), ('call', 'g', [I(1), I(2)]), ('array', I(2), I(0)), ('array', I(2), tr('e', I(0))),
    ('idx', V('ga'), I(0)), ('idxset', V('ga'), I(0), I(9)), ('object', None, [('field', 'v', I(1))]),
    ('object', V('ga'), []), ('object', I(6), []),
    ('fget', V('go'), 'v'), ('fget', tr('o', V('go')), 'v'), ('fset', V('go'), 'v', I(2)), ('mcall', V('go'), 'm', [I(1)]), ('mcall', V('gc'), 'm', [I(1)]),
    ('binop', '+', V('go'), I(2)), ('idx', V('go'), I(5)), ('idxset', V('go'), I(1), I(2)), ('idx', V('gc'), I(5)),
    ('binop', '+', I(1), I(1)), ('binop', '<', I(1), I(2)), ('binop', '|', B(True), B(False)), ('binop', '*', I(65536), I(65536)),
    ('print', 'p', []), ('print', '~', [I(1)]),
    V('nosuch'), ('call', 'nosuch', []), ('fget', V('go'), 'nosuch'), ('mcall', V('go'), 'nosuch', []), ('binop', '/', I(1), I(0)),
    ('call', 'f', []), ('print', '~', []), ('print', 'q', [I(1)]), ('idx', V('ga'), I(3)), ('binop', '+', I(1), N), ('array', I(-1), I(0)),
]

import itertools as _it
_serial = _it.count()
def fresh(h):
    if isinstance(h, tuple):
        if h and h[0] == 'let': return ('let', h[1], fresh(h[2]), next(_serial))
        return tuple(fresh(x) for x in h)
    if isinstance(h, list): return [fresh(x) for x in h]
    return h
def fill(t, h):
    if t == H: return fresh(h)
    if isinstance(t, tuple): return tuple(fill(x, h) for x in t)
    if isinstance(t, list): return [fill(x, h) for x in t]
    return t

def programs(depth):
    exprs = []
    for t in TEMPLATES:
        for f in FILLERS:
            exprs.append(fill(t, f))
    if depth >= 3:
        for t1 in TEMPLATES:
            for t2 in TEMPLATES[1:]:
                for f in FILLERS[::3]:
                    exprs.append(fill(t1, fill(t2, f)))
    for e in exprs:
        for kept in (False, True):
            st = ('print', '=~\\n', [e]) if kept else e
            # frame 0: top level
            yield PRELUDE + [st] + EPILOGUE
            # frame 1: in a top-level block
            yield PRELUDE + [('block', [('let', 'loc', I(3)), st, ('print', 'L~\\n', [V('loc')])])] + EPILOGUE
            # frame 2: function body
            yield PRELUDE + [('fun', 'body', ['par'], ('block', [('let', 'loc', I(3)), st, ('print', 'L~ ~\\n', [V('loc'), V('par')]), V('par')])),
                             ('print', 'R~\\n', [('call', 'body', [I(77)])])] + EPILOGUE
            # frame 3: method body
            yield PRELUDE + [('let', 'host', ('object', None, [('field', 'v', I(1)), ('method', 'run', ['par'], ('block', [st, V('par')]))])),
                             ('print', 'R~\\n', [('mcall', V('host'), 'run', [I(78)])])] + EPILOGUE


def sources(depth):
    seen=set()
    for prog in programs(depth):
        src=pr_program(prog)
        if src in seen: continue
        seen.add(src); yield src
