import sys, os, subprocess, re, hashlib
from concurrent.futures import ThreadPoolExecutor
sys.path.insert(0, '/root/scratch/py')
import drive_lib
TOK = re.compile(r'\s+|"(?:[^\\"]|\\.)*"|-?[0-9]+|[_A-Za-z][_A-Za-z0-9]*|<-|->|==|!=|<=|>=|.', re.S)
DECOR = [' ', '\t', '\n', '\r\n', '/**/', '/***/', '/* * / */', '/* // */', '// c\n', '// /* \n', '/* λ👍 */', '// 👍\n', '/*\n*/', '/* " */']
def tokens(src): return [t for t in TOK.findall(src) if not t.isspace()]
def parse(a):
    binary, idx, text = a
    p = '/root/scratch/x/drv/d%d.fml' % idx; open(p, 'w').write(text)
    r = subprocess.run([binary, 'parse', p, '--format', 'json'], capture_output=True, env={'RUST_BACKTRACE': '0'}); os.unlink(p)
    return r.returncode, hashlib.md5(r.stdout).hexdigest()
def main():
    binary = sys.argv[1]; n = int(sys.argv[2])
    srcs = list(drive_lib.sources(2)); srcs = srcs[::max(1, len(srcs) // n)][:n]
    jobs = []; meta = []
    for si, src in enumerate(srcs):
        toks = tokens(src)
        jobs.append(' '.join(toks)); meta.append((si, 'base', None))
        for b in range(len(toks) + 1):
            for d in DECOR:
                jobs.append(' '.join(toks[:b]) + ' ' + d + ' ' + ' '.join(toks[b:])); meta.append((si, b, d))
        for d in DECOR:
            jobs.append(d + d.join(toks) + d); meta.append((si, 'all', d))
    print('sources', len(srcs), 'parses', len(jobs), file=sys.stderr)
    base = {}; bad = []
    with ThreadPoolExecutor(32) as ex:
        res = list(ex.map(parse, [(binary, i, j) for i, j in enumerate(jobs)]))
    for (si, b, d), (rc, h), text in zip(meta, res, jobs):
        if b == 'base': base[si] = (rc, h)
    for (si, b, d), (rc, h), text in zip(meta, res, jobs):
        if (rc, h) != base[si]: bad.append((si, b, d, rc, text[:200]))
    print('compared', len(jobs), 'base parse failures', sum(1 for v in base.values() if v[0] != 0), 'differences', len(bad))
    for x in bad[:10]: print('  ', x)
main()
