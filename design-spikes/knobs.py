# Throw-away: C05 layout-knob spike. Decode compiler output, apply one layout transformation, execute, compare.
import sys, os, subprocess, random
from concurrent.futures import ThreadPoolExecutor
sys.path.insert(0, '/root/scratch/py')
from bcread import *; from bc import program as bcwrite
import drive_lib
FEENY = {'+':'add','-':'sub','*':'mul','/':'div','%':'mod','<':'lt','<=':'le','>':'gt','>=':'ge','==':'eq','!=':'neq','&':'and','|':'or'}
IDX1 = ('label','lit','object','getslot','setslot','setglobal','getglobal','branch','goto','printf','callslot','call')
def remap_ins(ins, f):
    if ins[0] in IDX1: return (ins[0], f(ins[1])) + tuple(ins[2:])
    return ins
def remap(consts, globs, entry, perm):
    """perm: old index -> new index"""
    n = len(consts); out = [None] * (max(perm.values()) + 1)
    for i, c in enumerate(consts):
        if c[0] == 'slot': c2 = ('slot', perm[c[1]])
        elif c[0] == 'class': c2 = ('class', [perm[m] for m in c[1]])
        elif c[0] == 'method': c2 = ('method', perm[c[1]], c[2], c[3], [remap_ins(x, lambda k: perm[k]) for x in c[4]])
        else: c2 = c
        out[perm[i]] = c2
    return out, [perm[g] for g in globs], perm[entry]
def user_defined_method_names(consts):
    names = set()
    for c in consts:
        if c[0] == 'class':
            for m in c[1]:
                if consts[m][0] == 'method': names.add(consts[consts[m][1]][1])
    return names
def knob_reverse_pool(consts, globs, entry):
    consts = list(consts); e = consts[entry]; consts[entry] = ('method', e[1], e[2], e[3], e[4] + [('return',)])
    n = len(consts); return remap(consts, globs, entry, {i: n - 1 - i for i in range(n)})
def knob_methods_first(consts, globs, entry):
    order = [i for i, c in enumerate(consts) if c[0] == 'method'] + [i for i, c in enumerate(consts) if c[0] != 'method']
    return remap(consts, globs, entry, {old: new for new, old in enumerate(order)})
def knob_entry_first_with_return(consts, globs, entry):
    consts = list(consts); e = consts[entry]
    consts[entry] = ('method', e[1], e[2], e[3], e[4] + [('lit', len(consts)), ('return',)]) if False else e
    # append return (needs a value on the stack? Return does not touch the operand stack) and move entry to the front of the pool
    consts[entry] = ('method', e[1], e[2], e[3], e[4] + [('return',)])
    order = [entry] + [i for i in range(len(consts)) if i != entry]
    return remap(consts, globs, entry, {old: new for new, old in enumerate(order)})
def knob_rename_labels(consts, globs, entry):
    # label strings are those referenced by label/goto/branch; rename to names colliding with other identifiers
    lab = set()
    for c in consts:
        if c[0] == 'method':
            for x in c[4]:
                if x[0] in ('label', 'goto', 'branch'): lab.add(x[1])
    other = set()
    for c in consts:
        if c[0] == 'method':
            other.add(c[1])
            for x in c[4]:
                if x[0] in ('getslot','setslot','setglobal','getglobal','printf','callslot','call'): other.add(x[1])
        if c[0] == 'slot': other.add(c[1])
    if lab & other: return None       # a string constant shared between a label and another use: skip
    consts = list(consts)
    names = ['f', 'gx', 'v', 'λ', '', 'm', 'get', 'L0', 'if:consequent:0', 'main'] + ['L%d' % i for i in range(1, 200)]
    for k, i in enumerate(sorted(lab)): consts[i] = ('str', names[k])
    return consts, globs, entry
def knob_reverse_globals(consts, globs, entry): return consts, list(reversed(globs)), entry
def knob_junk_and_dups(consts, globs, entry):
    # interleave unused constants and duplicates (indices shift by 2x+1)
    n = len(consts); perm = {i: 2 * i + 1 for i in range(n)}
    c2, g2, e2 = remap(consts, globs, entry, perm)
    out = []
    for i in range(2 * n):
        if i % 2 == 1: out.append(c2[i])
        else:
            j = (i // 2) % n
            out.append(consts[j] if consts[j][0] in ('int', 'null', 'bool', 'str') else ('int', i))
    return out, g2, e2
def knob_feeny_names(consts, globs, entry):
    if user_defined_method_names(consts) & set(FEENY): return None   # user-defined operators keep their names
    used_as_call = set(); used_otherwise = set()
    for c in consts:
        if c[0] == 'method':
            for x in c[4]:
                if x[0] == 'callslot': used_as_call.add(x[1])
                elif x[0] in IDX1: used_otherwise.add(x[1])
            used_otherwise.add(c[1])
        if c[0] == 'slot': used_otherwise.add(c[1])
    consts = list(consts); changed = False
    for i in used_as_call - used_otherwise:
        if consts[i][1] in FEENY: consts[i] = ('str', FEENY[consts[i][1]]); changed = True
    return (consts, globs, entry) if changed else None
def knob_extra_locals(consts, globs, entry):
    # every method gets 3 extra unused locals and its own locals shifted up by 2 (gap)
    out = []
    for c in consts:
        if c[0] == 'method':
            na = c[2]
            def sh(x):
                if x[0] in ('getlocal', 'setlocal') and x[1] >= na: return (x[0], x[1] + 2)
                return x
            out.append(('method', c[1], c[2], c[3] + 3, [sh(x) for x in c[4]]))
        else: out.append(c)
    return out, globs, entry
KNOBS = [knob_reverse_pool, knob_methods_first, knob_entry_first_with_return, knob_rename_labels, knob_reverse_globals, knob_junk_and_dups, knob_feeny_names, knob_extra_locals]
def work(a):
    binary, idx, src = a
    base = '/root/scratch/x/drv/n%d' % idx; e = {'RUST_BACKTRACE': '0'}
    open(base + '.fml', 'w').write(src)
    subprocess.run([binary, 'parse', base + '.fml', '--format', 'json', '-o', base + '.json'], capture_output=True, env=e)
    c = subprocess.run([binary, 'compile', base + '.json', '-o', base + '.bc'], capture_output=True, env=e)
    res = []
    if c.returncode == 0:
        b = open(base + '.bc', 'rb').read()
        r0 = subprocess.run([binary, 'execute', base + '.bc'], capture_output=True, env=e)
        ref = (r0.returncode, r0.stdout)
        consts, globs, entry = read_program(b)
        for k in KNOBS:
            t = k(consts, globs, entry)
            if t is None: res.append((k.__name__, 'skip')); continue
            open(base + '.k.bc', 'wb').write(bcwrite(*t))
            r = subprocess.run([binary, 'execute', base + '.k.bc'], capture_output=True, env=e)
            res.append((k.__name__, 'same' if (r.returncode, r.stdout) == ref else ('DIFF', ref, (r.returncode, r.stdout, r.stderr[-200:]))))
    for x in ('.fml', '.json', '.bc', '.k.bc'):
        if os.path.exists(base + x): os.unlink(base + x)
    return res
def main():
    binary = sys.argv[1]; stride = int(sys.argv[2])
    srcs = list(drive_lib.sources(2))[::stride]
    print('programs', len(srcs), file=sys.stderr)
    tally = {}; diffs = []
    with ThreadPoolExecutor(32) as ex:
        for src, res in zip(srcs, ex.map(work, [(binary, i, s) for i, s in enumerate(srcs)])):
            for name, r in res:
                key = r if isinstance(r, str) else 'DIFF'
                tally[(name, key)] = tally.get((name, key), 0) + 1
                if key == 'DIFF': diffs.append((name, src, r))
    for k in sorted(tally): print(k, tally[k])
    for d in diffs[:6]: print(d[0], '\n   ', ' ; '.join(d[1].split(';\n')[7:])[:200], '\n   ', d[2][1], '\n   ', d[2][2])
main()
