# Throw-away: C17 spike — syntax-agnostic injectivity + numeral presence over single-feature edits.
import sys, os, subprocess, re, copy
from concurrent.futures import ThreadPoolExecutor
sys.path.insert(0, '/root/scratch/py')
from bcread import *; from bc import program as bcwrite
import drive_lib
SHAPE1 = ['label','lit','object','getslot','setslot','setglobal','getglobal','branch','goto']
SHAPE2 = ['printf','callslot','call']
SHAPEL = ['setlocal','getlocal']
SHAPE0 = ['array','return','drop']
def same_kind(consts, i):
    k = consts[i][0]; ks = ('int','null','bool') if k in ('int','null','bool') else (k,)
    return [j for j, c in enumerate(consts) if c[0] in ks and j != i]
def neighbours(consts, globs, entry):
    """yield (description, numeric change a->a' or None, program)"""
    for ci, c in enumerate(consts):
        def with_const(nc): x = list(consts); x[ci] = nc; return x
        if c[0] == 'int':
            for d in (1, -1): yield ('int payload', c[1] + d, (with_const(('int', c[1] + d)), globs, entry))
        elif c[0] == 'bool': yield ('bool flip', None, (with_const(('bool', not c[1])), globs, entry))
        elif c[0] == 'str':
            if not any(x[0] == 'method' and any(i[0] in ('label','goto','branch') and i[1] == ci for i in x[4]) for x in consts):
                for suf in ['x', '"', ' ', '#1', ': 2', ',']: yield ('string', None, (with_const(('str', c[1] + suf)), globs, entry))
        elif c[0] == 'slot':
            for j in same_kind(consts, c[1])[:2]: yield ('slot name', j, (with_const(('slot', j)), globs, entry))
        elif c[0] == 'class':
            if c[1]: yield ('class remove', None, (with_const(('class', c[1][:-1])), globs, entry))
            for j, k in enumerate(consts):
                if k[0] in ('slot',) and j not in c[1]: yield ('class add', j, (with_const(('class', c[1] + [j])), globs, entry)); break
            if len(c[1]) > 1: yield ('class swap', None, (with_const(('class', [c[1][1], c[1][0]] + c[1][2:])), globs, entry))
        elif c[0] == 'method':
            yield ('nargs', c[2] + 1, (with_const(('method', c[1], c[2] + 1, c[3], c[4])), globs, entry))
            yield ('nlocals', c[3] + 1, (with_const(('method', c[1], c[2], c[3] + 1, c[4])), globs, entry))
            for j in same_kind(consts, c[1])[:1]: yield ('method name', j, (with_const(('method', j, c[2], c[3], c[4])), globs, entry))
            for pc, ins in enumerate(c[4]):
                def with_ins(ni): code = list(c[4]); code[pc] = ni; return with_const(('method', c[1], c[2], c[3], code))
                op = ins[0]
                if op in ('label',): continue
                for grp in (SHAPE2, SHAPEL, SHAPE0):
                    if op in grp:
                        for o2 in grp:
                            if o2 != op: yield ('opcode %s->%s' % (op, o2), None, (with_ins((o2,) + ins[1:]), globs, entry))
                if op in ('getslot', 'setslot', 'getglobal', 'setglobal'):
                    for o2 in ('getslot', 'setslot', 'getglobal', 'setglobal'):
                        if o2 != op: yield ('opcode %s->%s' % (op, o2), None, (with_ins((o2, ins[1])), globs, entry))
                if op in ('goto', 'branch'):
                    o2 = 'branch' if op == 'goto' else 'goto'; yield ('opcode %s->%s' % (op, o2), None, (with_ins((o2, ins[1])), globs, entry))
                if op in SHAPE1:
                    for j in same_kind(consts, ins[1])[:2]:
                        if op in ('goto', 'branch') : continue
                        yield ('operand of ' + op, j, (with_ins((op, j)), globs, entry))
                if op in SHAPE2:
                    yield ('arity of ' + op, ins[2] + 1, (with_ins((op, ins[1], ins[2] + 1)), globs, entry))
                    for j in same_kind(consts, ins[1])[:1]: yield ('operand of ' + op, j, (with_ins((op, j, ins[2])), globs, entry))
                if op in SHAPEL: yield ('local index', ins[1] + 1, (with_ins((op, ins[1] + 1)), globs, entry))
            yield ('drop last instruction', None, (with_const(('method', c[1], c[2], c[3], c[4][:-1])), globs, entry))
            yield ('append drop', None, (with_const(('method', c[1], c[2], c[3], c[4] + [('drop',)])), globs, entry))
    if globs:
        yield ('globals remove', None, (consts, globs[:-1], entry))
        if len(globs) > 1: yield ('globals swap', None, (consts, [globs[1], globs[0]] + globs[2:], entry))
    for j, k in enumerate(consts):
        if k[0] in ('slot', 'method') and j not in globs: yield ('globals add', j, (consts, globs + [j], entry)); break
    for j in same_kind(consts, entry)[:2]: yield ('entry', j, (consts, globs, j))
def dis(a):
    binary, idx, b = a
    p = '/root/scratch/x/drv/l%d.bc' % idx; open(p, 'wb').write(b)
    r = subprocess.run([binary, 'disassemble', p], capture_output=True, env={'RUST_BACKTRACE': '0'}); os.unlink(p)
    return r.returncode, r.stdout.decode('utf8', 'replace'), r.stderr.decode('utf8', 'replace')[-200:]
def compile_src(binary, src, idx):
    base = '/root/scratch/x/drv/lc%d' % idx; e = {'RUST_BACKTRACE': '0'}
    open(base + '.fml', 'w').write(src)
    subprocess.run([binary, 'parse', base + '.fml', '--format', 'json', '-o', base + '.json'], capture_output=True, env=e)
    c = subprocess.run([binary, 'compile', base + '.json', '-o', base + '.bc'], capture_output=True, env=e)
    b = open(base + '.bc', 'rb').read() if c.returncode == 0 else None
    for x in ('.fml', '.json', '.bc'):
        if os.path.exists(base + x): os.unlink(base + x)
    return b
def numerals(a):
    return {str(a), '%x' % a if a >= 0 else None, '0x%x' % a if a >= 0 else None}
def main():
    binary = sys.argv[1]; nbase = int(sys.argv[2])
    srcs = list(drive_lib.sources(2)); srcs = srcs[::len(srcs) // nbase][:nbase]
    jobs = []; meta = []
    for si, src in enumerate(srcs):
        b = compile_src(binary, src, si)
        if b is None: continue
        consts, globs, entry = read_program(b)
        jobs.append(b); meta.append((si, 'base', None, (consts, globs, entry)))
        for desc, num, prog in neighbours(consts, globs, entry):
            try: nb = bcwrite(*prog)
            except Exception: continue
            jobs.append(nb); meta.append((si, desc, num, prog))
    print('listings', len(jobs), file=sys.stderr)
    with ThreadPoolExecutor(32) as ex: res = list(ex.map(dis, [(binary, i, j) for i, j in enumerate(jobs)]))
    by_text = {}; crashes = {}; collisions = 0; numeral_missing = {}
    base_text = {}
    for (si, desc, num, prog), (rc, out, err) in zip(meta, res):
        if desc == 'base': base_text[si] = out
    for (si, desc, num, prog), (rc, out, err), b in zip(meta, res, jobs):
        if rc != 0: crashes.setdefault(desc, []).append(err.strip().split('\n')[-2:-1]); continue
        key = (si, out)
        if key in by_text and by_text[key][1] != b:
            collisions += 1
            if collisions <= 8: print('COLLISION', desc, 'vs', by_text[key][0])
        else: by_text[key] = (desc, b)
        if num is not None and desc != 'base':
            changed = [l for l in out.split('\n') if l not in set(base_text[si].split('\n'))]
            toks = set(re.findall(r'[0-9a-fA-Fx]+|-?\d+', ' '.join(changed)))
            digits = set(re.findall(r'-?\d+', ' '.join(changed)))
            ok = any(n is not None and (n in toks or n in digits or n.lstrip('-') in {d.lstrip('0') or '0' for d in digits}) for n in numerals(num))
            if not ok: numeral_missing.setdefault(desc, []).append((num, changed[:3]))
    print('compared', len(jobs), 'collisions', collisions, 'disassembler failures', {k: len(v) for k, v in crashes.items()})
    for k, v in list(crashes.items())[:5]: print('   crash e.g.', k, v[0])
    print('numeral missing:', {k: len(v) for k, v in numeral_missing.items()})
    for k, v in list(numeral_missing.items())[:6]: print('   ', k, v[0])
main()
