# Throw-away: independent reader of the documented layout + C02 validator (abstract (pc, depth) exploration).
import struct
OPN = {0:'label',1:'lit',2:'printf',3:'array',4:'object',5:'getslot',6:'setslot',7:'callslot',8:'call',9:'setlocal',10:'getlocal',11:'setglobal',12:'getglobal',13:'branch',14:'goto',15:'return',16:'drop'}
class Rd:
    def __init__(self, b): self.b = b; self.i = 0
    def take(self, n):
        if self.i + n > len(self.b): raise ValueError('truncated')
        r = self.b[self.i:self.i+n]; self.i += n; return r
    def u8(self): return self.take(1)[0]
    def u16(self): return struct.unpack('<H', self.take(2))[0]
    def u32(self): return struct.unpack('<I', self.take(4))[0]
    def i32(self): return struct.unpack('<i', self.take(4))[0]
def read_ins(r):
    op = r.u8()
    if op not in OPN: raise ValueError('opcode %d' % op)
    n = OPN[op]
    if n in ('label','lit','object','getslot','setslot','setlocal','getlocal','setglobal','getglobal','branch','goto'): return (n, r.u16())
    if n in ('printf','callslot','call'): return (n, r.u16(), r.u8())
    return (n,)
def read_program(b):
    r = Rd(b); consts = []
    for _ in range(r.u16()):
        t = r.u8()
        if t == 0: consts.append(('int', r.i32()))
        elif t == 1: consts.append(('null',))
        elif t == 2: consts.append(('str', r.take(r.u32()).decode('utf8')))
        elif t == 3:
            name = r.u16(); na = r.u8(); nl = r.u16(); code = [read_ins(r) for _ in range(r.u32())]
            consts.append(('method', name, na, nl, code))
        elif t == 4: consts.append(('slot', r.u16()))
        elif t == 5: consts.append(('class', [r.u16() for _ in range(r.u16())]))
        elif t == 6:
            v = r.u8()
            if v > 1: raise ValueError('bool')
            consts.append(('bool', v == 1))
        else: raise ValueError('tag %d' % t)
    globs = [r.u16() for _ in range(r.u16())]
    entry = r.u16()
    if r.i != len(b): raise ValueError('trailing bytes')
    return consts, globs, entry

def validate(consts, globs, entry):
    """returns list of violation strings"""
    V = []
    def kind(i): return consts[i][0] if 0 <= i < len(consts) else None
    if kind(entry) != 'method': V.append('entry not a method')
    for g in globs:
        if kind(g) not in ('slot', 'method'): V.append('global kind')
    labels = {}
    for ci, c in enumerate(consts):
        if c[0] == 'slot' and kind(c[1]) != 'str': V.append('slot name')
        if c[0] == 'class':
            for m in c[1]:
                if kind(m) not in ('slot', 'method'): V.append('class member')
        if c[0] == 'method':
            if kind(c[1]) != 'str': V.append('method name')
            for pc, ins in enumerate(c[4]):
                if ins[0] == 'label':
                    if kind(ins[1]) != 'str': V.append('label name'); continue
                    nm = consts[ins[1]][1]
                    if nm in labels: V.append('label defined twice: ' + nm)
                    labels[nm] = (ci, pc)
    for ci, c in enumerate(consts):
        if c[0] != 'method': continue
        code = c[4]; frame = c[2] + c[3]
        def target(ins):
            if kind(ins[1]) != 'str': V.append('jump name'); return None
            nm = consts[ins[1]][1]
            if nm not in labels: V.append('undefined label ' + nm); return None
            if labels[nm][0] != ci: V.append('jump leaves method: ' + nm); return None
            return labels[nm][1]
        depth_at = {}
        work = [(0, 0)] if code else []
        states = 0; trans = 0
        while work:
            pc, d = work.pop()
            if pc >= len(code): continue           # fell off the end (entry method)
            if pc in depth_at:
                if depth_at[pc] != d: V.append('method #%d pc %d: depth %d vs %d (path dependent)' % (ci, pc, depth_at[pc], d))
                continue
            depth_at[pc] = d; states += 1
            ins = code[pc]; op = ins[0]
            def need(n):
                if d < n: V.append('method #%d pc %d (%s): needs %d operands, depth %d' % (ci, pc, op, n, d)); return False
                return True
            nxt = []
            if op == 'lit':
                if kind(ins[1]) not in ('int', 'null', 'bool'): V.append('lit kind')
                nxt = [(pc+1, d+1)]
            elif op in ('getlocal', 'setlocal'):
                if ins[1] >= frame: V.append('method #%d pc %d: local %d outside frame of %d' % (ci, pc, ins[1], frame))
                if op == 'getlocal': nxt = [(pc+1, d+1)]
                else:
                    if need(1): nxt = [(pc+1, d)]
            elif op in ('getglobal', 'setglobal'):
                if kind(ins[1]) != 'str': V.append('global name kind')
                if op == 'getglobal': nxt = [(pc+1, d+1)]
                elif need(1): nxt = [(pc+1, d)]
            elif op == 'object':
                if kind(ins[1]) != 'class': V.append('object class kind')
                else:
                    ns = sum(1 for m in consts[ins[1]][1] if kind(m) == 'slot')
                    if need(ns + 1): nxt = [(pc+1, d - ns)]
            elif op == 'array':
                if need(2): nxt = [(pc+1, d-1)]
            elif op == 'getslot':
                if kind(ins[1]) != 'str': V.append('slot name kind')
                if need(1): nxt = [(pc+1, d)]
            elif op == 'setslot':
                if kind(ins[1]) != 'str': V.append('slot name kind')
                if need(2): nxt = [(pc+1, d-1)]
            elif op in ('callslot', 'call', 'printf'):
                if kind(ins[1]) != 'str': V.append('name kind')
                if op == 'callslot' and ins[2] == 0: V.append('call slot arity 0')
                if need(ins[2]): nxt = [(pc+1, d - ins[2] + 1)]
            elif op == 'label': nxt = [(pc+1, d)]
            elif op == 'goto':
                t = target(ins)
                if t is not None: nxt = [(t, d)]
            elif op == 'branch':
                if need(1):
                    t = target(ins); nxt = [(pc+1, d-1)]
                    if t is not None: nxt.append((t, d-1))
            elif op == 'return':
                if d != 1: V.append('method #%d pc %d: depth %d at return' % (ci, pc, d))
            elif op == 'drop':
                if need(1): nxt = [(pc+1, d-1)]
            trans += len(nxt); work.extend(nxt)
    return V
