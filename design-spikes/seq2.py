# Throw-away: two-statement interplay + nested definitions + compound arrays (U-SEM-like), R vs fml run.
import sys, os, subprocess, itertools
from concurrent.futures import ThreadPoolExecutor
sys.path.insert(0, '/root/scratch/py')
from refsem import *
import drive_lib as D
I, V, B, N, tr, fill, H = D.I, D.V, D.B, D.N, D.tr, D.fill, D.H
EFFECT = [
    ('let', 'w', I(3)), ('set', 'gx', I(4)), ('set', 'gx', ('binop', '+', V('gx'), V('gy'))), ('idxset', V('ga'), I(0), I(9)), ('idxset', V('ga'), I(1), V('ga')) if False else ('idxset', V('ga'), I(1), V('gx')),
    ('fset', V('go'), 'v', I(2)), ('fset', V('gc'), 'w', V('go')) if False else ('fset', V('gc'), 'w', I(6)), ('idxset', V('go'), I(1), I(22)), ('idxset', V('gc'), I(1), I(23)),
    ('let', 'al', V('ga')), ('let', 'ol', V('go')), ('let', 'n2', ('array', I(2), tr('e', V('gx')))), ('let', 'o2', ('object', V('ga'), [('field', 'v', V('gx')), ('method', 'm', ['k'], ('binop', '+', ('fget', V('this'), 'v'), V('k')))])),
    ('if', ('binop', '<', V('gx'), I(2)), ('set', 'gy', I(7)), ('set', 'gy', I(8))), ('while', ('binop', '<', V('gy'), I(5)), ('set', 'gy', ('binop', '+', V('gy'), I(1)))),
    ('print', 'a~', [V('gx')]), ('call', 'g', [I(1), I(2)]), ('block', [('let', 'gx', I(50)), ('set', 'gx', I(51)), ('print', 'b~', [V('gx')])]),
    ('binop', '/', I(1), I(0)), V('gx'), I(7), ('print', 'c~', []),
]
OBSERVE = [
    V('w'), V('gx'), V('gy'), V('ga'), V('go'), V('gc'), V('al'), V('ol'), V('n2'), V('o2'),
    ('idx', V('al'), I(0)), ('fget', V('ol'), 'v'), ('mcall', V('o2'), 'm', [I(1)]), ('idx', V('o2'), I(0)), ('idxset', V('o2'), I(0), I(77)),
    ('idxset', V('al'), I(2), I(5)), ('fset', V('ol'), 'v', I(0)), ('binop', '+', V('gx'), V('w')), ('mcall', V('gc'), 'm', [V('gx')]), ('binop', '+', V('gc'), I(2)),
    ('call', 'f', [V('gx')]), ('array', V('gx'), V('gy')), ('array', V('gy'), tr('e', V('gx'))), ('if', ('binop', '==', V('gx'), I(4)), I(1), I(2)),
    ('let', 'w', I(9)), ('let', 'w2', V('w')), ('set', 'w', I(10)), ('print', 'd~ ~', [V('gx'), V('gy')]),
]
EP = D.EPILOGUE
def seq_programs():
    for a in EFFECT:
        for b in OBSERVE:
            for kept in (False, True):
                b2 = ('print', '=~\\n', [b]) if kept else b
                a1 = D.fresh(a); b1 = D.fresh(b2)
                yield D.PRELUDE + [a1, b1, D.fresh(a), ] + EP if False else D.PRELUDE + [a1, b1] + EP
                yield D.PRELUDE + [('block', [D.fresh(a), D.fresh(b2)])] + EP
                yield D.PRELUDE + [('fun', 'body', ['par'], ('block', [D.fresh(a), D.fresh(b2), V('par')])), ('print', 'R~\\n', [('call', 'body', [I(77)])])] + EP
                yield D.PRELUDE + [('let', 'host', ('object', None, [('field', 'v', I(1)), ('method', 'run', ['par'], ('block', [D.fresh(a), D.fresh(b2), V('par')]))])), ('print', 'R~\\n', [('mcall', V('host'), 'run', [I(78)])])] + EP
def nested_defs():
    # object with method whose body builds an object with a method ... depth 3, in 3 contexts, with loops/ifs inside each method
    def obj(level, inner):
        body = ('block', [('print', '<m%d>' % level, []), ('let', 'l%d' % level, I(level)),
                          ('if', ('binop', '<', V('k'), I(2)), ('print', 'lt', []), ('print', 'ge', [])),
                          ('let', 'c', I(0)), ('while', ('binop', '<', V('c'), V('k')), ('set', 'c', ('binop', '+', V('c'), I(1)))),
                          inner if inner is not None else ('binop', '+', V('k'), ('fget', V('this'), 'f%d' % level))])
        return ('object', None, [('field', 'f%d' % level, I(10 * level)), ('method', 'm', ['k'], body)])
    for d in (1, 2, 3):
        inner = None
        for lvl in range(d, 0, -1):
            o = obj(lvl, inner)
            inner = ('mcall', o, 'm', [('binop', '+', V('k'), I(1))]) if lvl > 1 else None
            if lvl > 1: pass
        # build from innermost: level d innermost
        cur = None
        for lvl in range(d, 0, -1):
            cur_obj = obj(lvl, cur)
            cur = ('mcall', cur_obj, 'm', [('binop', '+', V('k'), I(1))])
        call = fill(cur, None) if False else cur
        for ctx in range(3):
            top_call = ('mcall', cur_obj, 'm', [I(0)])
            if ctx == 0: yield D.PRELUDE + [('print', '=~\\n', [top_call])] + EP
            if ctx == 1: yield D.PRELUDE + [('block', [('let', 'q', I(1)), ('print', '=~\\n', [top_call])])] + EP
            if ctx == 2: yield D.PRELUDE + [('fun', 'mk', ['z'], ('block', [('let', 'q', V('z')), top_call])), ('print', '=~ ~\\n', [('call', 'mk', [I(1)]), ('call', 'mk', [I(2)])])] + EP
def arrays():
    inits = [tr('e', V('gx')), ('block', [('let', 't', V('gy')), ('set', 'gy', ('binop', '+', V('gy'), I(1))), V('t')]), ('call', 'g', [I(3), I(4)]),
             ('array', I(2), tr('i', I(0))), ('array', I(2), ('array', I(1), tr('j', I(5)))), ('object', None, [('field', 'v', V('gy'))]), ('if', ('binop', '<', V('gy'), I(3)), I(1), I(2)),
             ('fget', tr('o', V('go')), 'v'), ('binop', '+', V('gx'), I(1)), ('print', 'p', []), ('let', 'ai', I(3)), ('idxset', V('ga'), I(0), V('gy'))]
    sizes = [I(0), I(1), I(3), tr('s', I(2)), V('gy'), ('let', 'sz', I(2)), I(-1), N]
    for s in sizes:
        for it in inits:
            e = ('array', s, it)
            for k in range(4):
                st = ('print', '=~\\n', [D.fresh(e)])
                if k == 0: yield D.PRELUDE + [st, D.fresh(e)] + EP
                if k == 1: yield D.PRELUDE + [('block', [st, ('let', 'second', D.fresh(e)), ('print', '~', [V('second')])])] + EP
                if k == 2: yield D.PRELUDE + [('fun', 'mk', ['n'], ('block', [('if', ('binop', '<', V('n'), I(1)), ('call', 'mk', [('binop', '+', V('n'), I(1))]), None), D.fresh(e)])), ('print', '=~\\n', [('call', 'mk', [I(0)])])] + EP
                if k == 3: yield D.PRELUDE + [('while', ('binop', '<', V('gy'), I(4)), ('block', [('set', 'gy', ('binop', '+', V('gy'), I(1))), st]))] + EP
def run_one(a):
    binary, idx, src = a
    p = '/root/scratch/x/drv/q%d.fml' % idx; open(p, 'w').write(src)
    r = subprocess.run([binary, 'run', p], capture_output=True, env={'RUST_BACKTRACE': '0'}); os.unlink(p)
    return r.returncode, r.stdout.decode(), r.stderr.decode()[-200:]
def main():
    binary = sys.argv[1]
    for name, gen in (('seq2', seq_programs), ('nested-defs', nested_defs), ('arrays', arrays)):
        cases = []; st = {'ok': 0, 'fail': 0, 'unspec': 0}
        for prog in gen():
            ref = reference(prog); st[ref[0]] += 1
            if ref[0] != 'unspec': cases.append((pr_program(prog), ref))
        bad = []
        with ThreadPoolExecutor(32) as ex:
            for (src, ref), (rc, out, err) in zip(cases, ex.map(run_one, [(binary, i, c[0]) for i, c in enumerate(cases)])):
                if not ((rc == 0) == (ref[0] == 'ok') and rc in (0, 101) and out == ref[1]): bad.append((src, ref[:2], rc, out, err))
        print(name, st, 'compared', len(cases), 'mismatches', len(bad))
        for b in bad[:5]: print('  SRC:', ' ; '.join(b[0].split(';\n')[7:])[:400]); print('  REF:', b[1], 'GOT', b[2], repr(b[3]), b[4].strip().split('\n')[-2:-1])
main()
