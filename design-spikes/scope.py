# Throw-away: U-SCOPE prototype (C12) — all statement trees with <= N simple statements.
import sys, os, subprocess, itertools
from concurrent.futures import ThreadPoolExecutor
sys.path.insert(0, '/root/scratch/py')
from refsem import *
from functools import lru_cache
I = lambda k: ('int', k); V = lambda n: ('var', n); B = lambda b: ('bool', b)
NAMES = ['x', 'y']
K = ('K',)  # placeholder for fresh constant

def simple():
    for v in NAMES:
        yield ('let', v, K); yield ('set', v, K); yield ('print', '<%s=~>' % v, [V(v)])

@lru_cache(None)
def stmts(n):
    """all single statements with exactly n statement nodes"""
    out = []
    if n == 1: out.extend(simple())
    if n >= 2:
        for seq in seqs(n - 1): out.append(('block', list(seq)))
        for s1 in stmts(n - 1):
            for c in (True, False): out.append(('if', B(c), s1, None))
            out.append(('while', V('once'), ('block', [('set', 'once', B(False)), s1])))
        for a in range(1, n - 1):
            for s1 in stmts(a):
                for s2 in stmts(n - 1 - a):
                    for c in (True, False): out.append(('if', B(c), s1, s2))
    return tuple(out)

@lru_cache(None)
def seqs(n):
    out = []
    for first in range(1, n + 1):
        for s1 in stmts(first):
            if first == n: out.append((s1,))
            else:
                for rest in seqs(n - first): out.append((s1,) + rest)
    return tuple(out)

_c = itertools.count(1)
def number(t, ctr):
    if t == K: return ('int', next(ctr))
    if isinstance(t, tuple):
        if t and t[0] == 'let': return ('let', t[1], number(t[2], ctr), next(_c))
        return tuple(number(x, ctr) for x in t)
    if isinstance(t, list): return [number(x, ctr) for x in t]
    return t

def uses_once(t):
    return 'once' in repr(t)

def programs(N, D):
    for n in range(1, N + 1):
        for seq in seqs(n):
            seq = list(number(list(seq), itertools.count(10)))
            once = [('let', 'once', B(True), next(_c))] if uses_once(seq) else []
            tail = []
            # frame top
            yield once + seq
            # frame: top-level block, with globals x,y defined outside
            yield [('let', 'x', I(1), next(_c)), ('let', 'y', I(2), next(_c))] + [('block', once + seq)] + [('print', '|~ ~', [V('x'), V('y')])]
            # frame: function body with param x, global x,y
            yield [('let', 'x', I(1), next(_c)), ('let', 'y', I(2), next(_c)),
                   ('fun', 'f', ['x'], ('block', once + seq)),
                   ('call', 'f', [I(5)]), ('print', '|~ ~', [V('x'), V('y')])]
            # frame: method body
            yield [('let', 'y', I(2), next(_c)),
                   ('let', 'o', ('object', None, [('field', 'x', I(7)), ('method', 'm', ['x'], ('block', once + seq))]), next(_c)),
                   ('mcall', V('o'), 'm', [I(5)]), ('print', '|~ ~', [V('y'), ('fget', V('o'), 'x')])]

def run_one(args):
    binary, idx, src = args
    path = '/root/scratch/x/drv/s%d.fml' % idx
    with open(path, 'w') as fh: fh.write(src)
    r = subprocess.run([binary, 'run', path], capture_output=True, env={'RUST_BACKTRACE': '0'})
    os.unlink(path)
    return r.returncode, r.stdout.decode(), r.stderr.decode()[-300:]

def main():
    binary = sys.argv[1]; N = int(sys.argv[2]); D = int(sys.argv[3])
    os.makedirs('/root/scratch/x/drv', exist_ok=True)
    stats = {'ok': 0, 'fail': 0, 'unspec': 0}; cases = []; total = 0
    for prog in programs(N, D):
        total += 1
        ref = reference(prog); stats[ref[0]] += 1
        if ref[0] != 'unspec': cases.append((pr_program(prog), ref))
    print('programs', total, stats, file=sys.stderr)
    if len(sys.argv) > 4: cases = cases[::int(sys.argv[4])]
    mism = []
    with ThreadPoolExecutor(32) as ex:
        for (src, ref), (rc, out, err) in zip(cases, ex.map(run_one, [(binary, i, c[0]) for i, c in enumerate(cases)])):
            if not ((rc == 0) == (ref[0] == 'ok') and out == ref[1] and rc in (0, 101)): mism.append((src, ref[:2], rc, out, err))
    print('compared', len(cases), 'mismatches', len(mism))
    other = [m for m in mism if " else let " not in m[0] and " else begin let " not in m[0]]
    print("not-F8-shaped:", len(other))
    for m in other[:12]:
        print('   SRC:', m[0].replace('\n', ' ')); print('   REF:', m[1], ' GOT rc=%d out=%r err=%r' % (m[2], m[3], m[4].strip().split('\n')[-2:-1]))
main()
