#!/bin/bash
# Offline build of the hooked binaries from /repo's working tree + reference-model self-check.
set -e
cd "$(dirname "$0")"
mkdir -p .cache
export RUSTFLAGS="--cfg kondziu_fml_verif" CARGO_NET_OFFLINE=true CARGO_TARGET_DIR=/verif/.cache/tgt
(cd "${VERIF_REPO:-/repo}" && cargo build --offline --quiet --release && cargo build --offline --quiet)
/verif/.cache/tgt/release/fml __verif selfcheck "${VERIF_REPO:-/repo}" > .cache/selfcheck.json
echo "setup ok"
