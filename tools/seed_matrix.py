#!/usr/bin/env python3
"""Markdown for DESIGN.md 12.6 / 12.7 from seeded/*/meta.json and benign/*/eval.json."""
import json, glob, os
VERIF = os.path.dirname(os.path.dirname(os.path.abspath(__file__)))
rows = []
for m in sorted(glob.glob(os.path.join(VERIF, "seeded", "*", "meta.json"))):
    d = json.load(open(m)); name = os.path.basename(os.path.dirname(m))
    rows.append((name, d))
print("| seed | what it breaks (author's summary, shortened) | caught by (quick tier) | first input reported by the property's own check | first version of the checks |")
print("|---|---|---|---|---|")
caught = 0
for name, d in rows:
    cb = d.get("caught_by")
    own = (d.get("checks_run") or {}).get(d["property"], {})
    first = (own.get("first") or {})
    inp = (first.get("input") or "").replace("\n", " ").replace("|", "/")
    # drop the common preludes from the displayed input
    for pre in ("let gx = 1; let gy = 2; let ga = array(3, 0); ",):
        inp = inp.replace(pre, "")
    fv = d.get("first_version_of_the_checks")
    fvs = "" if not fv else ("missed by %s" % ",".join(fv["checks_run"]) if not fv["caught_by"] else "caught")
    if cb: caught += 1
    print("| %s | %s | %s | %s | %s |" % (name, (d.get("summary") or "").replace("\n", " ").replace("|", "/")[:160], ", ".join(cb) if cb else ("**not caught**" if cb is not None else "not evaluated"),
                                       ("`%s`" % inp[:110]) if inp else "", fvs))
print()
print("%d of %d confirmed seeds are caught by at least one quick check." % (caught, len(rows)))
print()
b = sorted(glob.glob(os.path.join(VERIF, "benign", "*", "eval.json")))
if b:
    print("| property-preserving change | why it preserves the properties | repository suite | checks that raise an alarm |")
    print("|---|---|---|---|")
    for f in b:
        d = json.load(open(f)); name = os.path.basename(os.path.dirname(f))
        why = open(os.path.join(os.path.dirname(f), "why.txt")).read().strip().replace("|", "/")
        tests = open(os.path.join(os.path.dirname(f), "tests.txt")).read().strip() if os.path.exists(os.path.join(os.path.dirname(f), "tests.txt")) else ""
        print("| %s | %s | %s | %s |" % (name, why[:200], tests, ", ".join(d["caught_by"]) if d["caught_by"] else "none"))
