#!/usr/bin/env python3
"""Markdown for DESIGN.md 12.6 / 12.7 from seeded/*/meta.json and benign/*/eval.json."""
import json, glob, os
VERIF = os.path.dirname(os.path.dirname(os.path.abspath(__file__)))
rows = []
for m in sorted(glob.glob(os.path.join(VERIF, "seeded", "*", "meta.json"))):
    d = json.load(open(m)); name = os.path.basename(os.path.dirname(m))
    rows.append((name, d))
print("| seed | what it breaks (author's summary, shortened) | own check | caught by (quick tier) | what the catching checks report (violation key: count) | first version of the checks |")
print("|---|---|---|---|---|---|")
caught = 0
own_caught = 0
for name, d in rows:
    cb = d.get("caught_by")
    keys = []
    for pid in (cb or [])[:3]:
        vk = (d.get("checks_run") or {}).get(pid, {}).get("violation_keys") or {}
        top = sorted(vk.items(), key=lambda kv: -kv[1])[:2]
        keys.append("%s: %s" % (pid, ", ".join("%s: %d" % (k, v) for k, v in top)))
    fv = d.get("first_version_of_the_checks")
    fvs = "" if not fv else ("missed by %s, then strengthened" % ",".join(fv["checks_run"]) if not fv["caught_by"] else "caught")
    if cb: caught += 1
    own = d.get("property") or name[:3]
    own_ok = own in (cb or [])
    if own_ok: own_caught += 1
    fvown = ""
    if fv and own in (fv.get("checks_run") or []) and own not in (fv.get("caught_by") or []) and own_ok: fvown = " (after strengthening)"
    print("| %s | %s | %s | %s | %s | %s |" % (name, (d.get("summary") or "").replace("\n", " ").replace("|", "/")[:170], ("yes" + fvown) if own_ok else "no", ", ".join(cb) if cb else ("**not caught**" if cb is not None else "not evaluated"),
                                       "; ".join(keys).replace("|", "/")[:260], fvs))
print()
print("%d of %d confirmed seeds are caught by at least one quick check; %d of them by the check of the property they were written against." % (caught, len(rows), own_caught))
print()
b = sorted(glob.glob(os.path.join(VERIF, "benign", "*", "eval.json")))
if b:
    print("| property-preserving change | why it preserves the properties | repository suite | checks that raise an alarm |")
    print("|---|---|---|---|")
    for f in b:
        d = json.load(open(f)); name = os.path.basename(os.path.dirname(f))
        why = open(os.path.join(os.path.dirname(f), "why.txt")).read().strip().replace("|", "/")
        tests = open(os.path.join(os.path.dirname(f), "tests.txt")).read().strip() if os.path.exists(os.path.join(os.path.dirname(f), "tests.txt")) else ""
        print("| %s | %s | %s | %s |" % (name, why[:200], tests, ", ".join(d["caught_by"]) if d["caught_by"] else "none"))
