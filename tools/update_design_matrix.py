#!/usr/bin/env python3
"""Regenerate DESIGN.md 12.6 / 12.7 between the SEED-MATRIX markers from seeded/ and benign/."""
import os, subprocess, re
VERIF = os.path.dirname(os.path.dirname(os.path.abspath(__file__)))
out = subprocess.run(["python3", os.path.join(VERIF, "tools", "seed_matrix.py")], capture_output=True, text=True).stdout
seeds, _, benign = out.partition("\n| property-preserving change")
benign = "| property-preserving change" + benign if benign else ""
intro = '''Independent sub-agents were each given **only the text of one property** and a scratch worktree
of /repo (nothing from /verif) and asked for realistic changes that break the property, still
compile, keep all 259 repository tests green and need something specific to manifest; seven rounds
(2, 3, 2, 2, 2, 2 and 1 variants per property; the fourth round for 8 properties, the fifth for 5, the
sixth for 4, the seventh for 12). I confirmed every delivered change myself in a scratch
worktree (`tools/confirm_seeds.sh`: the patch applies, the suite passes 259/0, the author's
demonstration behaves differently with and without the change); changes that conflicted with my
repairs were rebased by hand (noted in their meta.json). Confirmed seeds live in `seeded/<id>/`
(patch.diff, demo/, meta.json). `tools/eval_seeds.py` applies a seed to /repo, runs quick checks
(evidence and replays redirected), undoes it straight afterwards, and records what each check
reported. "r2".."r7" mark the later rounds. Where the *first version* of a check missed a seed, that
was measured with the then-committed harness before the check was strengthened (last column);
the strengthenings are listed in 12.8 and are always a generalisation of the universe (new alphabet
letters, shapes, bounds), never a special case for the seed's input. The column "own check" says
whether the check of the property the seed was written against reports it (a seed written against
one property often breaks a neighbouring one more directly: a parser defect written against C01 is
C07's to report first). Records of checks other than the own one may stem from an earlier harness
version (`harness_commit` in `seeded/<id>/meta.json`); universes only grew since, except C05, which
stopped reporting compiler defects and was re-run.

Attribution: a check alarms when a program of *its* universe misbehaves, so a defect in a
construct that many universes use (print, let, calls, the loader) is reported by several checks;
the replay record names the failing input. C05 deliberately does *not* report a disagreement
between M on compiled bytes and R on the source when the real VM agrees with M (that is a
compiler defect - C01's business).

'''
btext = '''### 12.7 Property-preserving changes (the checks must stay quiet)

`benign/<name>/` holds changes that alter observable-but-unspecified behaviour or internal choices
without breaking any of the 17 properties (several of them do break tests of the repository
suite that pin exact bytecode). All 17 quick checks were run against each of them:

''' + benign + '''
Three alarms were raised during this exercise and each was instructive: (1) an earlier version of
`exit-status-2` changed only `fml run`; C06 was right to object (staged and direct exit status must
agree), but C16's alarm was a false alarm of the machinery - it compared `execute` under flags with
`run` without flags - and C16 was corrected to compare each action with its own flag-free run;
(2) `this-is-the-receiver` tripped C05 because M bound slot 0 of an inherited method to the holder
although the instruction documentation does not say so (U4); M now treats that as unspecified, as R
already did; (3) `extra-unused-local` is a true positive of C11, kept for the record: the `+ 1`
turns the unchecked `locals - parameters` underflow for `function first(a, a)` into a program that
the release build compiles and the debug build refuses.

The whole set was re-run against the final harness (all 17 quick checks per patch). Two further
alarms appeared, both false alarms of stages added late, both corrected (12.4): the deep-call-stack
stage of C10 demanded that a cyclic print *fails* (`cyclic-print-renders-ellipsis`), and U-SCALE16
sat on the exact maximum frame size, which `extra-unused-local` legitimately lowers by one (C01).
After the corrections the only alarm left is C11's on `extra-unused-local`.
'''
body = "<!-- SEED-MATRIX-BEGIN -->\n" + intro + seeds.strip() + "\n\n" + btext + "<!-- SEED-MATRIX-END -->"
p = os.path.join(VERIF, "DESIGN.md")
s = open(p).read()
if "@@SEED_MATRIX@@" in s:
    s = s.replace("@@SEED_MATRIX@@", body)
else:
    s = re.sub(r"<!-- SEED-MATRIX-BEGIN -->.*<!-- SEED-MATRIX-END -->", lambda m: body, s, flags=re.S)
open(p, "w").write(s)
print("DESIGN.md updated")
