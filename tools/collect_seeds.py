#!/usr/bin/env python3
"""Copy confirmed seeded changes from the sub-agents' output directories into /verif/seeded/<id>/
(patch.diff, demo/, meta.json) and regenerate seeded/INDEX.md.  usage: collect_seeds.py <root> [<root> ...]
A seed is kept only if confirm.json (written by tools/confirm_seeds.sh) says: applies, 259 tests pass,
demonstration differs with the change."""
import sys, os, json, shutil, glob
VERIF = os.path.dirname(os.path.dirname(os.path.abspath(__file__)))
OUT = os.path.join(VERIF, "seeded")
props = {json.loads(l)["id"]: json.loads(l)["title"] for l in open(os.path.join(VERIF, "properties.jsonl"))}
rows = []
for root in sys.argv[1:]:
    r = root.rstrip("/")
    rnd = "r2" if r.endswith("2") else ("r3" if r.endswith("3") else ("r4" if r.endswith("4") else ("r5" if r.endswith("5") else ("r6" if r.endswith("6") else ("r7" if r.endswith("7") else "r1")))))
    for sd in sorted(glob.glob(os.path.join(root, "C??", "?"))):
        cj = os.path.join(sd, "confirm.json")
        if not os.path.exists(cj): continue
        c = json.load(open(cj))
        if not (c.get("applies") and c.get("tests_pass") and c.get("demo_differs_with_change")): continue
        pid, var = sd.split("/")[-2], sd.split("/")[-1]
        name = "%s-%s%s" % (pid, var, "" if rnd == "r1" else "-" + rnd)
        dst = os.path.join(OUT, name)
        shutil.rmtree(dst, ignore_errors=True)
        os.makedirs(dst)
        reb = os.path.join(sd, "patch.rebased.diff")
        shutil.copy(reb if os.path.exists(reb) and os.path.getsize(reb) > 0 else os.path.join(sd, "patch.diff"), os.path.join(dst, "patch.diff"))
        if os.path.exists(os.path.join(sd, "patch.original.diff")):
            shutil.copy(os.path.join(sd, "patch.original.diff"), os.path.join(dst, "patch.as-delivered.diff"))
        if os.path.isdir(os.path.join(sd, "demo")):
            shutil.copytree(os.path.join(sd, "demo"), os.path.join(dst, "demo"), ignore=shutil.ignore_patterns("*.bc.big", ".mod.rs.orig"))
            for f in glob.glob(os.path.join(dst, "demo", "**"), recursive=True):
                if os.path.isfile(f) and os.path.getsize(f) > 300_000: os.remove(f)
        meta = {}
        mj = os.path.join(sd, "meta.json")
        if os.path.exists(mj):
            try: meta = json.load(open(mj))
            except Exception: meta = {"note": "agent's meta.json was not valid JSON"}
        ev = {}
        ej = os.path.join(sd, "eval.json")
        if os.path.exists(ej): ev = json.load(open(ej))
        before = os.path.join(sd, "eval.before-strengthening.json")
        missed_before = None
        if os.path.exists(before):
            b = json.load(open(before)); missed_before = {"checks_run": list(b["checks"].keys()), "caught_by": b["caught_by"]}
        out = {
            "property": pid, "property_title": props.get(pid), "variant": var, "round": rnd,
            "summary": meta.get("summary"), "needs_to_manifest": meta.get("needs_to_manifest"),
            "produced_by": "independent sub-agent given only the property text and a scratch worktree",
            "confirmed_by_me": {"how": "tools/confirm_seeds.sh in a scratch worktree of /repo: git apply, cargo test --workspace --no-fail-fast --offline, demo/run.sh with and without the change",
                                "repo_commit": c.get("confirmed_at_repo_commit"), "tests": c.get("tests"), "demo_differs_with_change": True,
                                "patch_rebased_by_hand": os.path.exists(os.path.join(sd, "patch.original.diff"))},
            "checks_run": {p: {"exit": r["exit"], "violation_keys": r.get("violation_keys"), "first": r.get("first"), "seconds": r.get("seconds"), "harness_commit": r.get("harness_commit")} for p, r in ev.get("checks", {}).items()},
            "caught_by": ev.get("caught_by"),
            "first_version_of_the_checks": missed_before,
        }
        json.dump(out, open(os.path.join(dst, "meta.json"), "w"), indent=1, ensure_ascii=False)
        rows.append(out | {"name": name})
# the index lists every seed kept so far, not only the roots given now (earlier roots are removed once collected)
collected = len(rows)
rows = []
for d in sorted(glob.glob(os.path.join(OUT, "C??-*"))):
    try: rows.append(json.load(open(os.path.join(d, "meta.json"))) | {"name": os.path.basename(d)})
    except Exception: pass
with open(os.path.join(OUT, "INDEX.md"), "w") as f:
    f.write("# Seeded property-breaking changes\n\nEach directory: `patch.diff` (applies to /repo HEAD with `git -C /repo apply`), `demo/` (the author's demonstration), `meta.json`.\nNone of these is ever committed to /repo. Evaluate with `tools/eval_seeds.py seeded/<id>`.\n\n| seed | breaks | needs | caught by (quick tier) |\n|---|---|---|---|\n")
    for r in rows:
        f.write("| %s | %s | %s | %s |\n" % (r["name"], (r["summary"] or "").replace("|", "/").replace("\n", " ")[:220], (r["needs_to_manifest"] or "").replace("|", "/").replace("\n", " ")[:200], ", ".join(r["caught_by"] or []) if r["caught_by"] is not None else "not evaluated yet"))
print(collected, "seeds collected now,", len(rows), "in the index")
