#!/bin/bash
# Run every thorough tier once; evidence goes to /verif/evidence-thorough/ (the committed
# evidence/ directory stays the quick tier's, which `vp check` rewrites anyway).
cd "$(dirname "$0")/.."
export VERIF_EVIDENCE_DIR=/verif/evidence-thorough VERIF_REPLAY_DIR=/verif/.cache/replays-thorough
mkdir -p $VERIF_EVIDENCE_DIR
for p in ${@:-C17 C15 C14 C13 C12 C16 C09 C08 C07 C06 C05 C04 C03 C10 C11 C02 C01}; do
  /usr/bin/time -f "%e s wall" ./check $p --tier thorough 2>&1 | grep -v "^KNOWN" | tail -3
done
