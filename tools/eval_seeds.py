#!/usr/bin/env python3
"""Run the quick checks against seeded property-breaking changes.

  tools/eval_seeds.py <seed dir> [<seed dir> ...] [--props C01,C02,...]

For each seed: `git -C /repo apply <patch>`, run every check's quick tier (evidence and replays are
redirected to .cache/seed-eval/<seed>/ so the committed evidence is not touched), undo the patch
straight afterwards (`git -C /repo checkout -- .`), and write <seed dir>/eval.json with what each
check reported. /repo must be clean on entry; it is clean on exit (also on error)."""
import sys, os, json, subprocess, time
VERIF = os.path.dirname(os.path.dirname(os.path.abspath(__file__)))
ALL = ["C%02d" % i for i in range(1, 18)]

def sh(cmd, **kw):
    return subprocess.run(cmd, capture_output=True, text=True, **kw)

def main():
    args = sys.argv[1:]
    props = ALL
    if "--props" in args:
        i = args.index("--props"); props = args[i + 1].split(","); del args[i:i + 2]
    # --merge: keep the records of checks that are not re-run now (each record carries the /verif commit it was made with)
    merge = "--merge" in args
    if merge: args.remove("--merge")
    harness = sh(["git", "-C", VERIF, "rev-parse", "--short", "HEAD"]).stdout.strip()
    if sh(["git", "-C", "/repo", "status", "--porcelain"]).stdout.strip():
        sys.exit("/repo is not clean")
    for seed in args:
        name = "-".join(seed.rstrip("/").split("/")[-2:])
        patch = os.path.join(seed, "patch.diff")
        a = sh(["git", "-C", "/repo", "apply", patch])
        if a.returncode != 0:
            alt = os.path.join(seed, "patch.rebased.diff")
            a = sh(["git", "-C", "/repo", "apply", alt]) if os.path.exists(alt) else a
        if a.returncode != 0:
            print(name, "patch does not apply:", a.stderr[:200]); continue
        out_dir = os.path.join(VERIF, ".cache", "seed-eval", name)
        os.makedirs(out_dir, exist_ok=True)
        env = dict(os.environ, VERIF_EVIDENCE_DIR=os.path.join(out_dir, "evidence"), VERIF_REPLAY_DIR=os.path.join(out_dir, "replays"))
        res = {}
        try:
            for p in props:
                t = time.time()
                r = sh([os.path.join(VERIF, "check"), p, "--tier", "quick"], env=env, cwd=VERIF)
                viol = [l for l in r.stdout.splitlines() if l.startswith("VIOLATION")]
                keys = {}
                ev = os.path.join(out_dir, "evidence", p + ".json")
                if os.path.exists(ev):
                    try: keys = json.load(open(ev))["coverage"].get("violation_keys", {})
                    except Exception: pass
                first = None
                if viol:
                    try:
                        rec = json.load(open(viol[0].split("replay=")[1]))
                        d = rec.get("detail", {})
                        first = {"key": rec.get("key"), "input": (d.get("text") or d.get("case") or d.get("edit") or json.dumps(d))[:400] if isinstance(d, dict) else str(d)[:400]}
                    except Exception: pass
                res[p] = {"harness_commit": harness, "exit": r.returncode, "violation_lines": len(viol), "violation_keys": {k: v for k, v in keys.items() if not k.startswith("stage-refusal/")},
                          "first": first, "seconds": round(time.time() - t, 1), "summary": (r.stdout.strip().splitlines() or [""])[-1][:200]}
                if r.returncode == 2:
                    res[p]["machinery_error"] = (r.stdout + r.stderr)[-400:]
        finally:
            sh(["git", "-C", "/repo", "checkout", "--", "."])
        ej = os.path.join(seed, "eval.json")
        if merge and os.path.exists(ej):
            try:
                old = json.load(open(ej)).get("checks", {})
                for k, v in old.items(): res.setdefault(k, v)
            except Exception: pass
        caught = [p for p in ALL if res.get(p, {}).get("exit") == 1]
        json.dump({"seed": name, "repo_commit": sh(["git", "-C", "/repo", "rev-parse", "--short", "HEAD"]).stdout.strip(), "checks": res, "caught_by": caught},
                  open(os.path.join(seed, "eval.json"), "w"), indent=1)
        print(name, "caught by", caught, "| machinery errors:", [p for p in props if res.get(p, {}).get("exit") == 2], flush=True)

main()
