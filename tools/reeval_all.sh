#!/bin/bash
# Final re-evaluation of every confirmed seed with the current harness: the seed's own property's check
# plus every check that caught it before. usage: reeval_all.sh <seed root> [<seed root> ...]
# MODE=own restricts the re-run to the own check (+ C05 where listed); other records are kept (--merge).
# Resumable: seeds whose eval.json is newer than $MARKER (default /tmp/reeval.marker) are skipped;
# `touch /tmp/reeval.stop` ends the loop before the next seed (never in the middle of one).
MARKER=${MARKER:-/tmp/reeval.marker}
[ -f "$MARKER" ] || touch "$MARKER"
for root in "$@"; do
  for sd in $root/C??/?; do
    [ -f /tmp/reeval.stop ] && { echo "stop requested"; exit 0; }
    [ -f "$sd/confirm.json" ] || continue
    [ "$sd/eval.json" -nt "$MARKER" ] && continue
    python3 - "$sd" <<'PY' > /tmp/reeval.props
import json, sys, os
sd = sys.argv[1]
c = json.load(open(os.path.join(sd, "confirm.json")))
if not (c.get("applies") and c.get("tests_pass") and c.get("demo_differs_with_change")): sys.exit(0)
own = sd.rstrip("/").split("/")[-2]
props = [own]
ej = os.path.join(sd, "eval.json")
if os.path.exists(ej):
    for p in json.load(open(ej)).get("caught_by") or []:
        # MODE=own: only the seed's own property's check, and C05 where it was listed (its oracle changed)
        if p not in props and (os.environ.get("MODE") != "own" or p == "C05"): props.append(p)
print(",".join(props))
PY
    props=$(cat /tmp/reeval.props)
    [ -n "$props" ] || continue
    python3 /verif/tools/eval_seeds.py $sd --props $props --merge
  done
done
