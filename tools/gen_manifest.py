#!/usr/bin/env python3
"""Regenerate /verif/MANIFEST.json from lib/propmeta.py (claimed checks) and properties.jsonl."""
import json, os, sys, subprocess
VERIF = os.path.dirname(os.path.dirname(os.path.abspath(__file__)))
sys.path.insert(0, os.path.join(VERIF, "lib"))
from propmeta import PROPS
props = [json.loads(l) for l in open(os.path.join(VERIF, "properties.jsonl"))]
NA = {}  # property -> reason, for properties that are not claimed
hooks = subprocess.run(["git", "-C", "/repo", "log", "--format=%h %s"], capture_output=True, text=True).stdout.splitlines()
hook_commits = [l.split()[0] for l in hooks if l.split(" ", 1)[1].startswith("verif hook")]
checks = []
for p in props:
    pid = p["id"]
    if pid not in PROPS:
        continue
    m = PROPS[pid]
    checks.append({
        "property_id": pid,
        "quick_cmd": "./check %s --tier quick" % pid,
        "thorough_cmd": "./check %s --tier thorough" % pid,
        "evidence_file": "evidence/%s.json" % pid,
        "replay_cmd_template": "./check %s --replay {path}" % pid,
        "engine": "fml-verif-harness",
        "level_claimed": {"category": m["level"], "text": m["text"], "design_ref": m["design_ref"]},
        "level_note": m["note"],
        "technique": m["technique"],
    })
manifest = {
    "version": 1,
    "setup_cmd": "./setup.sh",
    "hooks": {
        "guard": "--cfg kondziu_fml_verif",
        "enable": "RUSTFLAGS='--cfg kondziu_fml_verif' CARGO_TARGET_DIR=/verif/.cache/tgt cargo build --offline [--release] in /repo (done by ./check and ./setup.sh)",
        "baseline_off_cmd": "cd /repo && cargo test --workspace --no-fail-fast --offline",
        "source_commits": hook_commits,
        "add_only": True,
    },
    "engines": [
        {"name": "fml-verif-harness", "path": "harness/", "serves_properties": [c["property_id"] for c in checks],
         "kind_free_text": "Rust harness compiled into the fml binary under the cfg guard: bounded-exhaustive enumeration (rank/unrank grammars), reference semantics R, abstract machine M, independent codec B, bytecode validator V, fault-injecting sinks; drives the real parser/compiler/serializer/VM in-process and as subprocesses"},
        {"name": "check", "path": "check", "serves_properties": [c["property_id"] for c in checks],
         "kind_free_text": "python3 driver: offline build of /repo's working tree with the hook on, model self-check, 16 sharded workers with heartbeat/watchdog, merge, known-findings filter, replay records, evidence"},
    ],
    "checks": checks,
    "notes": "See DESIGN.md. exit 0 held / 1 violation / 2 machinery error. Known findings: known-findings.txt.",
    "not_applicable": [{"property_id": p["id"], "reason": NA.get(p["id"], "check not built yet (build in progress, DESIGN.md section 10); the technique applies")}
                       for p in props if p["id"] not in PROPS],
}
json.dump(manifest, open(os.path.join(VERIF, "MANIFEST.json"), "w"), indent=1)
print("claimed:", [c["property_id"] for c in checks])
