#!/bin/bash
# Confirm seeded changes independently, in a scratch worktree of /repo (outside /repo and /verif):
#   the patch applies, the project builds, the repository's suite passes (259/0), and the seed's own
#   demonstration behaves differently with and without the change.
# usage: confirm_seeds.sh <seed dir> [<seed dir> ...]     (a seed dir holds patch.diff and demo/run.sh)
# Writes <seed dir>/confirm.json. The scratch worktree is removed at the end.
WT=/tmp/confirm-wt-$$
git -C /repo worktree add -q --detach $WT HEAD || exit 2
trap 'git -C /repo worktree remove --force $WT 2>/dev/null; git -C /repo worktree prune' EXIT
cd $WT
export RUST_BACKTRACE=0 CARGO_NET_OFFLINE=true
cargo build --offline -q 2>/dev/null
for S in "$@"; do
  [ -f "$S/patch.diff" ] || { echo "$S: no patch.diff"; continue; }
  git reset -q --hard HEAD; git clean -fdq -e target
  APPLY=ok
  git apply "$S/patch.diff" 2>/dev/null || git apply --3way "$S/patch.diff" 2>/dev/null || APPLY=failed
  if [ $APPLY = failed ]; then echo "{\"applies\": false}" > "$S/confirm.json"; echo "$S: patch does not apply"; git reset -q --hard HEAD; continue; fi
  ARG=$WT/target/debug/fml; grep -qiE "path-to-worktree|path to the FML worktree|builds both profiles|cargo build" "$S/demo/run.sh" 2>/dev/null && ARG=$WT
  git diff > "$S/patch.rebased.diff"
  TESTS=$(cargo test --workspace --no-fail-fast --offline 2>&1 | grep -E "^test result" | head -1)
  cargo build --offline -q 2>/dev/null
  WITH=""; WITHOUT=""
  if [ -x "$S/demo/run.sh" ] || [ -f "$S/demo/run.sh" ]; then
    WITH=$(cd "$S/demo" && timeout 120 bash ./run.sh $ARG 2>&1 | sed -e "s/([0-9]*) panicked/panicked/" | head -c 20000)
  fi
  git reset -q --hard HEAD; git clean -fdq -e target
  cargo build --offline -q 2>/dev/null
  if [ -f "$S/demo/run.sh" ]; then
    WITHOUT=$(cd "$S/demo" && timeout 120 bash ./run.sh $ARG 2>&1 | sed -e "s/([0-9]*) panicked/panicked/" | head -c 20000)
  fi
  python3 - "$S" "$TESTS" <<PY
import json,sys
s,tests=sys.argv[1],sys.argv[2]
w=open('/dev/stdin').read() if False else None
PY
  DIFFER=no; [ "$WITH" != "$WITHOUT" ] && DIFFER=yes
  python3 -c "
import json,sys
json.dump({'applies': True, 'tests': sys.argv[2], 'tests_pass': '259 passed; 0 failed' in sys.argv[2], 'demo_differs_with_change': sys.argv[3]=='yes',
           'demo_output_with': sys.argv[4][-3000:], 'demo_output_without': sys.argv[5][-3000:], 'confirmed_at_repo_commit': sys.argv[6]}, open(sys.argv[1]+'/confirm.json','w'), indent=1)
" "$S" "$TESTS" "$DIFFER" "$WITH" "$WITHOUT" "$(git -C /repo rev-parse --short HEAD)"
  echo "$S: tests=[$TESTS] demo_differs=$DIFFER"
done
