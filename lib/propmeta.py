"""Per-property metadata shared by ./check (evidence) and tools/gen_manifest.py (MANIFEST.json)."""

COMMON_ASSUMPTIONS = [
    "the hooked binary (cfg kondziu_fml_verif) runs the same parser/compiler/serializer/VM code as the stock binary; the hook only adds an argv intercept",
    "rustc 1.95 toolchain of this sandbox; results are for this toolchain's release profile unless the check names the debug profile",
    "nothing is claimed beyond the stated bounds (program size, alphabets); cases the reference model marks Unspecified (DESIGN.md 4.3) are skipped and counted, never judged",
]

R_ASSUMPTIONS = COMMON_ASSUMPTIONS + [
    "reference semantics R (harness/refsem.rs) is the README's evaluation rules; it is bound to the maintainers' expectations by the corpus self-check run before every check",
    "one parser instance per worker is reused across programs (the parser object is immutable)",
]

PROPS = {
    "C01": {
        "level": "model_checking",
        "evaluations_counter": "programs",
        "technique": "bounded-exhaustive enumeration of source programs (construct pairs/triples in 8 placements, kind-directed programs) replayed on both execution paths against reference semantics R",
        "design_ref": "DESIGN.md 6/C01, 4",
        "rule": "CORPUS + U-PAIR(d): every template (construct with one hole) nested d-1 times and closed by every filler, kept and discarded, in 4 frames + U-SEM(n): all kind-directed statement lists with <= n grammar nodes in 3 frames, enumerated by rank; non-trivial = reference run prints >= 1 byte and evaluates >= 2 distinct construct kinds; distinct by source text",
        "assumptions": R_ASSUMPTIONS,
        "text": "Every program of the universes is parsed, compiled and executed on both paths the statement names (compile->interpret and compile->serialize->load->interpret); stdout text and ok/fail must equal the reference semantics; a subset also runs as a real `fml run` process (exit status, stdout). Miscompilations are interactions of two or three constructs; all pairs and triples in all placements are inside the bound.",
        "note": "trusted: reference semantics R and the printer; not covered: programs larger than the bounds, integer values outside the small alphabet (C09 covers the arithmetic tables)",
    },
    "C12": {
        "level": "model_checking",
        "evaluations_counter": "programs",
        "technique": "bounded-exhaustive enumeration of scope programs (U-SCOPE) replayed on the real pipeline against reference semantics R",
        "design_ref": "DESIGN.md 6/C12, 4.1",
        "rule": "every statement sequence with <= N statement nodes over {let,assign,read,block,if,if-else,while,function call,method call} x {x,y} in 4-6 frame kinds, enumerated by rank from the grammar's exact count; non-trivial = reference run prints >= 1 byte and evaluates >= 2 distinct construct kinds; distinct by source text",
        "assumptions": R_ASSUMPTIONS,
        "text": "Every program of U-SCOPE(N) (N<=5 quick, N<=7 thorough) is run through parse->compile->interpret and parse->compile->serialize->load->interpret and its stdout and ok/fail are compared with the reference semantics; scoping bugs are interactions of 2-4 statements, all of which are inside the bound.",
        "note": "trusted: reference semantics R and the printer; not covered: programs with more than N statement nodes, names other than x/y",
    },
}
