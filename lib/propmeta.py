"""Per-property metadata shared by ./check (evidence) and tools/gen_manifest.py (MANIFEST.json)."""

COMMON_ASSUMPTIONS = [
    "the hooked binary (cfg kondziu_fml_verif) runs the same parser/compiler/serializer/VM code as the stock binary; the hook only adds an argv intercept",
    "rustc 1.95 toolchain of this sandbox; results are for this toolchain's release profile unless the check names the debug profile",
    "nothing is claimed beyond the stated bounds (program size, alphabets); cases the reference model marks Unspecified (DESIGN.md 4.3) are skipped and counted, never judged",
]

R_ASSUMPTIONS = COMMON_ASSUMPTIONS + [
    "reference semantics R (harness/refsem.rs) is the README's evaluation rules; it is bound to the maintainers' expectations by the corpus self-check run before every check",
    "one parser instance per worker is reused across programs (the parser object is immutable)",
]

PROPS = {
    "C01": {
        "level": "model_checking",
        "evaluations_counter": "programs",
        "technique": "bounded-exhaustive enumeration of source programs (construct pairs/triples in 8 placements, kind-directed programs) replayed on both execution paths against reference semantics R",
        "design_ref": "DESIGN.md 6/C01, 4",
        "rule": "CORPUS + U-PAIR(d): every template (construct with one hole) nested d-1 times and closed by every filler, kept and discarded, in 4 frames + U-SEM(n): all kind-directed statement lists with <= n grammar nodes in 3 frames, enumerated by rank; non-trivial = reference run prints >= 1 byte and evaluates >= 2 distinct construct kinds; distinct by source text",
        "assumptions": R_ASSUMPTIONS,
        "text": "Every program of the universes is parsed, compiled and executed on both paths the statement names (compile->interpret and compile->serialize->load->interpret); stdout text and ok/fail must equal the reference semantics; a subset also runs as a real `fml run` process (exit status, stdout). Miscompilations are interactions of two or three constructs; all pairs and triples in all placements are inside the bound.",
        "note": "trusted: reference semantics R and the printer; not covered: programs larger than the bounds, integer values outside the small alphabet (C09 covers the arithmetic tables)",
    },
    "C13": {
        "level": "model_checking",
        "evaluations_counter": "programs",
        "technique": "bounded-exhaustive enumeration of tracer programs (U-ORDER) replayed on the real pipeline against reference semantics R",
        "design_ref": "DESIGN.md 6/C13",
        "rule": "every construct with a self-identifying tracer (prints a unique marker) in every operand slot; then every tracer slot replaced in turn by every construct of the slot's kind (depth d); array sizes 0..3 with literal/variable/field-path/compound initializers, loop counts 0..3, both branches; each kept and discarded, at top level and in a function body; non-trivial = reference prints >= 1 byte and evaluates >= 2 construct kinds; distinct by source text",
        "assumptions": R_ASSUMPTIONS,
        "text": "The exact sequence of tracer markers (and callee argument echoes) printed by the real pipeline must equal the reference semantics' left-to-right order and evaluation counts for every program of U-ORDER(d) (d=2 quick, d=3 thorough).",
        "note": "trusted: reference semantics R; not covered: nesting deeper than d, more than 3 arguments",
    },
    "C14": {
        "level": "model_checking",
        "evaluations_counter": "programs",
        "technique": "bounded-exhaustive enumeration of parent-chain and aliasing programs (U-OBJ) replayed on the real pipeline against reference semantics R",
        "design_ref": "DESIGN.md 6/C14",
        "rule": "parent chains of length 0..d ending in {null,int,bool,array,object} x every combination of 8 override subsets per level x 19 calls (methods, operators, get/set sugar, wrong argument counts, unknown names); aliasing: 6 value kinds x 4 mutation kinds x all ordered pairs of 6 storage-location kinds; non-trivial = reference prints >= 1 byte and evaluates >= 2 construct kinds; distinct by source text",
        "assumptions": R_ASSUMPTIONS + ["U3 (value of built-in array set) and U4 (`this` in a method found in an ancestor) are skipped as unspecified"],
        "text": "Every program of U-OBJ (chains to depth 3 quick / 4 thorough; the full aliasing matrix) is run on the real pipeline and compared with the reference semantics: which method body runs, failures at the end of the chain, argument-count checks, visibility of mutations through every alias.",
        "note": "trusted: reference semantics R; not covered: chains longer than d, more than one method per name per level",
    },
    "C15": {
        "level": "model_checking",
        "evaluations_counter": "programs",
        "technique": "exhaustive enumeration of format strings (U-FMT) and values (U-VAL) replayed on the real pipeline against the reference formatter/renderer of R",
        "design_ref": "DESIGN.md 6/C15",
        "rule": "all strings of length <= L over {~ \\ n \" a LF e-acute} that the lexer admits x 0..3 integer arguments, printed inside an enclosing print (so the null result is observed); all values up to a size bound over leaves {null,true,-1,0}, arrays of length 0..2, objects with every ordered selection of <= 3 of 6 field names and 4 parent kinds; non-trivial = reference prints >= 1 byte and evaluates >= 2 construct kinds; distinct by source text",
        "assumptions": R_ASSUMPTIONS + ["U7: escapes outside n t r \\ \" ~ are unspecified (the lexer rejects them at source level)", "the bytecode-level half of U-FMT (strings the lexer rejects) is explored by C05"],
        "text": "Every admitted format string of length <= 5 (quick) / 6 (thorough) with 0..3 arguments and every value up to the size bound is printed by the real pipeline and compared byte for byte with the reference formatter and renderer, including clean failure on count mismatch.",
        "note": "trusted: reference formatter (harness/refsem.rs fmt/render); not covered: longer strings, characters outside the alphabet except the listed extras",
    },
    "C12": {
        "level": "model_checking",
        "evaluations_counter": "programs",
        "technique": "bounded-exhaustive enumeration of scope programs (U-SCOPE) replayed on the real pipeline against reference semantics R",
        "design_ref": "DESIGN.md 6/C12, 4.1",
        "rule": "every statement sequence with <= N statement nodes over {let,assign,read,block,if,if-else,while,function call,method call} x {x,y} in 4-6 frame kinds, enumerated by rank from the grammar's exact count; non-trivial = reference run prints >= 1 byte and evaluates >= 2 distinct construct kinds; distinct by source text",
        "assumptions": R_ASSUMPTIONS,
        "text": "Every program of U-SCOPE(N) (N<=5 quick, N<=7 thorough) is run through parse->compile->interpret and parse->compile->serialize->load->interpret and its stdout and ok/fail are compared with the reference semantics; scoping bugs are interactions of 2-4 statements, all of which are inside the bound.",
        "note": "trusted: reference semantics R and the printer; not covered: programs with more than N statement nodes, names other than x/y",
    },
}
